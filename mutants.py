#!/usr/bin/env python3
"""Hand-written mutants (DESIGN.md section 5) run against the checks in an isolated copy.

Usage: mutants.py [id ...]      (needs /tmp/mut/repo = scratch worktree of /repo HEAD and
                                 /tmp/mut/verif = copy of /verif whose harness points at it;
                                 see DESIGN.md section 10; both are scratch and removed afterwards)
Writes /verif/seeded/HANDWRITTEN_MUTANTS.json with, per mutant: does the pinned suite still pass,
which quick checks report a violation.
"""
import json, os, subprocess, sys

REPO = os.environ.get("MUT_ROOT", "/tmp/mut") + "/repo"
VERIF = os.environ.get("MUT_ROOT", "/tmp/mut") + "/verif"
L = "src/lib.rs"
M = [
 dict(id="M01", file=L, props=["C01"], note="over-aligned fast path: drop the `aligned_ptr < start` guard",
      old="if aligned_ptr < start || aligned_size > capacity {", new="if aligned_size > capacity {"),
 dict(id="M02", file=L, props=["C12", "C01"], note="dealloc not gated on is_last_allocation",
      old="if layout.size() != 0 && self.is_last_allocation(ptr) {", new="if layout.size() != 0 {"),
 dict(id="M03", file=L, props=["C12"], note="grow fallback copies new size instead of old size (out-of-bounds read)",
      old="ptr::copy_nonoverlapping(ptr.as_ptr(), new_ptr.as_ptr(), old_size);\n        Ok(new_ptr)", new="ptr::copy_nonoverlapping(ptr.as_ptr(), new_ptr.as_ptr(), new_layout.size());\n        Ok(new_ptr)"),
 dict(id="M04", file=L, props=["C12", "C02"], note="in-place grow uses copy_nonoverlapping on overlapping ranges",
      old="ptr::copy(ptr.as_ptr(), p.as_ptr(), old_size);", new="ptr::copy_nonoverlapping(ptr.as_ptr(), p.as_ptr(), old_size);"),
 dict(id="M05", file=L, props=["C03", "C06"], note="reset cuts the list but never frees the older chunks",
      old="            dealloc_chunk_list(prev_chunk);\n", new="            let _ = prev_chunk;\n"),
 dict(id="M08", file=L, props=["C10"], note="as_raw_parts reports from the chunk start instead of the finger",
      old="let len = unsafe { (self as *const ChunkFooter as *const u8).offset_from(ptr) as usize };\n        (ptr, len)", new="let len = unsafe { (self as *const ChunkFooter as *const u8).offset_from(data) as usize };\n        (data, len)"),
 dict(id="M09", file=L, props=["C12"], note="grow_zeroed without the fill",
      old="ptr.as_mut()[old_layout.size()..].fill(0);", new="let _ = &mut ptr;"),
 dict(id="M10", file=L, props=["C12", "C04"], note="shrink ignores a stricter new alignment",
      old="if old_layout.align() < new_layout.align() {\n            return if is_pointer_aligned_to(ptr.as_ptr(), new_layout.align()) {", new="if old_layout.align() < new_layout.align() && false {\n            return if is_pointer_aligned_to(ptr.as_ptr(), new_layout.align()) {"),
 dict(id="M11", file=L, props=["C08"], note="allocated_bytes accumulates the block size including the footer",
      old="let allocated_bytes = prev.as_ref().allocated_bytes + new_size_without_footer;", new="let allocated_bytes = prev.as_ref().allocated_bytes + size;"),
 dict(id="M13", file=L, props=["C18"], note="constructor sizes the first chunk from half the capacity",
      old="let layout = layout_from_size_align(capacity, MIN_ALIGN)?;", new="let layout = layout_from_size_align(capacity / 2 + 1, MIN_ALIGN)?;"),
 dict(id="M14", file=L, props=["C18"], note="chunks stop doubling",
      old=".checked_mul(2)?\n                .max(min_new_chunk_size);", new=".checked_mul(1)?\n                .max(min_new_chunk_size);"),
 dict(id="M16", file="src/collections/string.rs", props=["C14"], note="String::insert without the char-boundary assertion", nth=0,
      old="        assert!(self.is_char_boundary(idx));\n", new="        let _ = idx;\n"),
 dict(id="M17", file="src/boxed.rs", props=["C17", "C15"], note="Box::drop never drops the value",
      old="            core::ptr::drop_in_place(self.0);", new="            let _ = self.0;"),
 dict(id="M19", file="src/collections/raw_vec.rs", props=["C18"], note="RawVec amortized growth degenerates to exact growth",
      old="Ok(cmp::max(double_cap, required_cap))", new="let _ = double_cap;\n        Ok(required_cap)"),
 dict(id="M24", file=L, props=["C09"], note="no null check after the global allocator call",
      old="let data = NonNull::new(data)?;", new="let data = NonNull::new_unchecked(data);"),
 dict(id="M25", file=L, props=["C09"], note="retry loop never halves the candidate size",
      old="                    base_size /= 2;\n", new=""),
 dict(id="M27", file=L, props=["C04", "C01"], note="Equal arm forgets to round the size up to the alignment",
      old="                    let aligned_size = round_up_to_unchecked(layout.size(), layout.align());\n\n                    let capacity = (ptr as usize) - (start as usize);", new="                    let aligned_size = layout.size();\n\n                    let capacity = (ptr as usize) - (start as usize);"),
 dict(id="M31", file=L, props=["C06"], note="reset leaves the finger where it was",
      old="            cur_chunk.as_ref().ptr.set(cur_chunk.cast());\n\n            // Reset the allocated size of the chunk.", new="\n            // Reset the allocated size of the chunk."),
 dict(id="M32", file=L, props=["C07"], note="the limit check ignores what is already held",
      old=".map(|allocation_limit| allocation_limit.saturating_sub(self.allocated_bytes()))", new=".map(|allocation_limit| allocation_limit)"),
 dict(id="M33", file=L, props=["C02", "C01"], note="alloc_slice_copy copies one element too few",
      old="ptr::copy_nonoverlapping(src.as_ptr(), dst.as_ptr(), src.len());\n            slice::from_raw_parts_mut(dst.as_ptr(), src.len())\n        }\n    }", new="ptr::copy_nonoverlapping(src.as_ptr(), dst.as_ptr(), src.len().saturating_sub(1));\n            slice::from_raw_parts_mut(dst.as_ptr(), src.len())\n        }\n    }"),
 dict(id="M34", file=L, props=["C20"], note="the fast path stores the finger unconditionally again (race on the static)",
      old="            if aligned_ptr.as_ptr() != ptr {\n                footer.ptr.set(aligned_ptr);\n            }", new="            footer.ptr.set(aligned_ptr);"),
 dict(id="M35", file=L, props=["C11"], note="same-chunk rewind of a failed initialiser never restores the finger (alloc_try_with)", nth=0,
      old="                        if current_ptr.get() != rewind_ptr {\n                            current_ptr.set(rewind_ptr);\n                        }\n", new="                        let _ = rewind_ptr;\n"),
]


def sh(cmd, cwd, timeout=3000):
    p = subprocess.run(cmd, cwd=cwd, shell=True, stdout=subprocess.PIPE, stderr=subprocess.STDOUT, text=True, timeout=timeout)
    return p.returncode, p.stdout


def main():
    want = set(sys.argv[1:])
    results = []
    out_path = "/verif/seeded/HANDWRITTEN_MUTANTS.json"
    if os.path.exists(out_path):
        results = [r for r in json.load(open(out_path)) if want and r["id"] not in want]
    for m in M:
        if want and m["id"] not in want:
            continue
        sh("git checkout -q -- .", REPO)
        path = os.path.join(REPO, m["file"])
        s = open(path).read()
        n = s.count(m["old"])
        if n == 0 or (n > 1 and "nth" not in m):
            print(m["id"], "PATTERN COUNT", n)
            results.append(dict(id=m["id"], note=m["note"], error="pattern count %d" % n))
            continue
        if "nth" in m:
            idx = -1
            for _ in range(m["nth"] + 1):
                idx = s.index(m["old"], idx + 1)
            s = s[:idx] + m["new"] + s[idx + len(m["old"]):]
        else:
            s = s.replace(m["old"], m["new"])
        open(path, "w").write(s)
        rc_suite, out = sh("cargo test --workspace --no-fail-fast --offline 2>&1 | tail -30", REPO)
        suite_ok = "FAILED" not in out and "error" not in out.split("test result")[0][-200:]
        rc_f, outf = sh("RUSTFLAGS=--cap-lints=warn cargo test --offline --features collections,boxed,allocator-api2,std --test all 2>&1 | tail -5", REPO)
        feat_ok = "test result: ok" in outf
        det = {}
        for p in m["props"]:
            rc, o = sh("./check %s --tier quick" % p, VERIF)
            sigs = [l.strip()[len("signature: "):] for l in o.splitlines() if l.strip().startswith("signature:")]
            det[p] = dict(rc=rc, first_signatures=sigs[:3])
        sh("git checkout -q -- .", REPO)
        r = dict(id=m["id"], note=m["note"], file=m["file"], pinned_suite_passes=suite_ok, feature_suite_passes=feat_ok, detected_by=det,
                 detected=any(v["rc"] == 1 for v in det.values()))
        results.append(r)
        print(m["id"], "suite_ok" if suite_ok else "SUITE-FAILS", "feat_ok" if feat_ok else "FEAT-FAILS", {p: v["rc"] for p, v in det.items()}, flush=True)
        json.dump(sorted(results, key=lambda r: r["id"]), open(out_path, "w"), indent=1)


if __name__ == "__main__":
    main()
