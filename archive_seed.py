#!/usr/bin/env python3
"""archive_seed.py <srcdir> <id> <property> <needs-text> <detected-by-text>"""
import sys, os, shutil, json
src, sid, prop, needs, det = sys.argv[1:6]
dst = os.path.join('/verif/seeded', sid)
os.makedirs(dst, exist_ok=True)
for f in os.listdir(src):
    if f.endswith(('.diff', '.rs', '.md')):
        shutil.copy(os.path.join(src, f), os.path.join(dst, f))
meta = dict(id=sid, property=prop, origin="independent sub-agent given only the property text and a scratch worktree",
            needs_to_manifest=needs,
            confirmed=dict(how="/verif/verify_seed <dir> in scratch worktree /tmp/wt/verify (removed afterwards)",
                           existing_suite_with_change="cargo test --workspace --no-fail-fast --offline: pass; RUSTFLAGS=--cap-lints=warn cargo test --offline --features collections,boxed,allocator-api2,std --test all: pass",
                           demo_with_change="fails", demo_without_change="passes"),
            detected_by=det)
json.dump(meta, open(os.path.join(dst, 'meta.json'), 'w'), indent=1)
