#!/bin/bash
# removes every scratch copy / worktree used while building (nothing a registered command needs lives there)
for d in /tmp/wt/* /tmp/mut/repo /tmp/mut2/repo /tmp/mut3/repo; do [ -d "$d" ] && git -C /repo worktree remove --force "$d" 2>/dev/null; done
git -C /repo worktree prune
rm -rf /tmp/wt /tmp/mut /tmp/mut2 /tmp/mut3 /tmp/cov /tmp/r5 /tmp/seeded_out /tmp/*.log /tmp/q_*.out /tmp/HANDWRITTEN_MUTANTS.before.json
git -C /repo status --short | head
git -C /repo worktree list
