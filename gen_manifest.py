#!/usr/bin/env python3
"""Regenerates MANIFEST.json from the table below (kept next to the plans)."""
import json
CLAIMED = {
 "C01": ("exploration", "shadow interval map of live blocks vs allocator ledger after every call; Miri + ASan on the same histories", "3/C01"),
 "C02": ("exploration", "expected-bytes shadow compared after every call, closure call logs; junk-filling allocator; Miri for uninitialised reads", "3/C02"),
 "C03": ("exploration", "global-allocator event ledger (exactly-once, same layout, only in reset/drop, empty after drop) under refusal schedules; Miri/ASan leak + UAF detection", "3/C03"),
 "C04": ("exploration", "address arithmetic on every returned pointer under a minimally-aligning (skewing) allocator; constructor panic table", "3/C04"),
 "C06": ("exploration", "post-reset structural assertions + refill-whole-chunk probe watched by the allocator ledger", "3/C06"),
 "C07": ("exploration", "conservation monitor on every chunk acquisition under a limit (computed from the ledger, not from the arena's own counters); twin-run trace equality for the no-limit clause", "3/C07"),
 "C08": ("exploration", "self-reported byte counts compared with the allocator ledger after every call", "3/C08"),
 "C09": ("fault_enumeration", "enumerated global-allocator refusal schedules x histories; per-call monitors (no panic in try_, failure changes nothing, bounded retries) and op-by-op twin comparison try_ vs infallible", "3/C09"),
 "C11": ("exploration", "drop ledger on the error value, closure-call counter, same-layout-again probe watched by the allocator ledger, shadow of blocks kept by the initialiser; systematic steering of the space left in the chunk", "3/C11"),
 "C12": ("exploration", "Allocator-contract shadow model (fit, alignment, prefix preserved, zeroed tail, no overlap, error leaves block intact) + differential allocator_api2 Vec/Box vs std on the global allocator; Miri + ASan", "3/C12"),
 "C18": ("exploration", "counting monitors over the allocator event ledger and as_ptr(): capacity served without new chunk, chunk_capacity probes, reserved Vec/String capacity without move, explicit geometric-growth bounds at volumes 1e3..1e7", "3/C18"),
 "C19": ("exploration", "boundary-grid enumeration per size-taking entry point (Bump, Vec, String) under a capped allocator; oracle: Err/panic required, Ok only if the claimed extent is really held", "3/C19"),
 "C20": ("exploration", "solo-vs-interleaved per-call trace equality (single thread, one arena per thread, hand-over between threads); ThreadSanitizer and Miri data-race detection on multi-arena schedules", "3/C20"),
 "C13": ("exploration", "differential executor against std::vec::Vec after every op (outcome class, values, contents, length, capacity promises) with neighbours in the same arena as canaries; debug+release, Miri, ASan", "3/C13"),
 "C15": ("exploration", "drop ledger with unique ids: per-op drop multisets compared with a std reference program, double-drop / reachable-after-drop / leak-by-design checks; Miri for stale bit-copies", "3/C15"),
 "C16": ("fault_enumeration", "enumerated panic points (k-th callback invocation) x callback-taking operations x follow-ups; drop ledger + reachability + UTF-8 + arena-usable oracles", "3/C16"),
 "C14": ("exploration", "differential executor against std::string::String + UTF-8 validity after every op; decoders compared with std exhaustively up to 3 (quick) / 4 (thorough) bytes, then by structure and at random", "3/C14"),
 "C17": ("exploration", "differential against std::boxed::Box + drop ledger for ownership transfers + allocator-event and accounting monitor around every Box drop", "3/C17"),
 "C10": ("exploration", "chunk iterators compared with ledger order/extents and with the shadow of live blocks; exact tiling oracle on uniform histories", "3/C10"),
}
NOT_YET = {}
NA = {"C05": "compile-time property (programs that must be rejected by rustc have no execution to monitor); runtime monitoring cannot apply, see DESIGN.md section 1"}
props=[json.loads(l) for l in open('/verif/properties.jsonl')]
checks=[]
for p in props:
    i=p["id"]
    if i in CLAIMED:
        lvl,tech,ref=CLAIMED[i]
        checks.append({
            "property_id": i,
            "quick_cmd": "./check %s --tier quick" % i,
            "thorough_cmd": "./check %s --tier thorough" % i,
            "evidence_file": "/verif/evidence/%s.json" % i,
            "replay_cmd_template": "./check replay {path}",
            "engine": "vharness",
            "level_claimed": {"category": lvl, "text": "held on the executions produced: " + tech, "design_ref": "DESIGN.md section " + ref},
            "level_note": "trusted base: the harness (hostile #[global_allocator] ledger, shadow model, drivers in /verif/harness), rustc/Miri/sanitizer runtimes; reach is what the steered random workloads and enumerations drive, reported per run in the evidence file",
            "technique": "runtime monitoring: " + tech,
        })
na=[{"property_id":k,"reason":v} for k,v in NA.items()]
for p in props:
    if p["id"] not in CLAIMED and p["id"] not in NA:
        na.append({"property_id":p["id"],"reason":"check not built yet (work in progress in this session)"})
m={"version":1,
 "setup_cmd":"./check setup",
 "hooks":{"guard":"none","enable":"no source hooks: every observation goes through bumpalo's public API plus a #[global_allocator] owned by the harness; checks build /repo's working tree as a path dependency","baseline_off_cmd":"cd /repo && cargo test --workspace --no-fail-fast --offline","source_commits":[],"add_only":True},
 "engines":[{"name":"vharness","path":"/verif/harness","serves_properties":sorted(CLAIMED),"kind_free_text":"Rust harness crate (path-depends on /repo) run natively (debug+release), under Miri, ASan and TSan by /verif/check"}],
 "checks":checks,
 "not_applicable":na,
 "notes":"fix: commits in /repo repair genuine defects found by these checks; see known_findings.json and DESIGN.md"}
json.dump(m,open('/verif/MANIFEST.json','w'),indent=1)
print(len(checks),"checks")
