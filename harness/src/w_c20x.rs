//! C20, collections layer: operations that involve containers of two different arenas
//! (append, extend from a drain of the other, splice with the other's drain, push_str of the other's
//! text, clone of the other into this arena).  Oracle: a container keeps living in the arena it was
//! created in (`bump()` identity), and from then on work done on it is paid for by that arena only:
//! the other arena's accounting and remaining room do not move while this one grows, and vice versa.
use crate::halloc::Env;
use crate::report::{fnv, Report};
use crate::rng::Rng;
use crate::Args;
use bumpalo::collections::{String as BString, Vec as BVec};
use bumpalo::Bump;

fn mk_arena(rng: &mut Rng) -> Bump {
    match rng.below(4) {
        0 => Bump::new(),
        1 => Bump::with_capacity(rng.range(1, 300) as usize),
        2 => Bump::with_capacity(rng.range(300, 5000) as usize),
        _ => {
            let b = Bump::new();
            // an arena that already has some history
            for _ in 0..rng.below(6) {
                b.alloc_slice_fill_copy(rng.range(1, 200) as usize, 0x5Au8);
            }
            b
        }
    }
}

fn stats(b: &Bump) -> (usize, usize, usize) {
    (b.allocated_bytes(), b.allocated_bytes_including_metadata(), b.chunk_capacity())
}

fn mk_vec<'b>(rng: &mut Rng, b: &'b Bump, next: &mut u64) -> BVec<'b, u64> {
    let mut v = match rng.below(4) {
        0 => BVec::new_in(b),
        1 => BVec::with_capacity_in(rng.below(20), b),
        _ => BVec::new_in(b),
    };
    let n = match rng.below(4) {
        0 => 0,
        1 => rng.range(1, 4) as usize,
        _ => rng.range(1, 40) as usize,
    };
    for _ in 0..n {
        v.push(*next);
        *next += 1;
    }
    if rng.chance(1, 6) {
        v.clear();
    }
    if rng.chance(1, 6) {
        v.shrink_to_fit();
    }
    v
}

fn mk_string<'b>(rng: &mut Rng, b: &'b Bump) -> BString<'b> {
    let mut s = match rng.below(3) {
        0 => BString::new_in(b),
        1 => BString::with_capacity_in(rng.below(30), b),
        _ => BString::new_in(b),
    };
    for _ in 0..rng.below(5) {
        s.push_str(["ab", "é", "xyz€", "0123456789", ""][rng.below(5)]);
    }
    s
}

/// grow `v` by `n` elements and report whether only `home` paid for it
fn grow_and_watch<'h>(rep: &mut Report, what: &str, who: &str, v: &mut BVec<'h, u64>, n: usize, home: &Bump, other: &Bump) {
    let (h0, o0) = (stats(home), stats(other));
    let cap0 = v.capacity();
    for i in 0..n {
        v.push(0xC20_0000 + i as u64);
    }
    let (h1, o1) = (stats(home), stats(other));
    rep.bump("c20.cross_arena_growth_watched");
    if o0 != o1 {
        rep.violate(
            "C20",
            format!("C20/cross-arena/{}/growing-a-vector-of-one-arena-changed-the-other-arena", what),
            format!("pushing {} elements onto the vector of arena {} moved the other arena's (allocated_bytes, including_metadata, chunk_capacity) from {:?} to {:?}", n, who, o0, o1),
        );
    }
    if v.capacity() != cap0 && h0 == h1 {
        rep.violate(
            "C20",
            format!("C20/cross-arena/{}/vector-grew-without-its-own-arena-paying", what),
            format!("the vector of arena {} went from capacity {} to {} and its arena's statistics stayed {:?}", who, cap0, v.capacity(), h0),
        );
    }
}

fn home_check<'h>(rep: &mut Report, what: &str, who: &str, vb: &Bump, home: &Bump) {
    rep.bump("c20.cross_arena_home_checks");
    if !std::ptr::eq(vb, home) {
        rep.violate("C20", format!("C20/cross-arena/{}/container-no-longer-belongs-to-the-arena-it-was-created-in", what), format!("container created in arena {}: bump() now returns another arena", who));
    }
}

const KINDS: [&str; 15] = ["append", "append-reverse", "extend-from-drain", "extend_from_slice", "splice-with-drain", "push_str", "from_iter_in-of-other", "clone_in-place-extend", "string-extend-chars", "string-extend-strings", "string-extend-strs", "string-add-assign", "string-from_iter_in-of-other", "extend-from-into_iter", "extend_from_slices_copy"];
const STRING_KINDS: [usize; 6] = [5, 8, 9, 10, 11, 12];

pub fn run(args: &Args, rep: &mut Report) {
    collections_twin(args, rep);
    let mut top = Rng::new(Rng::mix(args.seed ^ 0xC20C, args.shard));
    Env::PLAIN.apply(1);
    for it in 0..args.iters {
        let pseed = top.next();
        let mut rng = Rng::new(pseed);
        let kind = (it as usize) % KINDS.len();
        let what = KINDS[kind];
        rep.ctx = format!("c20cross program {} kind {} (seed {} shard {})", it, what, args.seed, args.shard);
        let a = mk_arena(&mut rng);
        let b = mk_arena(&mut rng);
        let mut next = 1u64;
        rep.evaluations += 1;
        rep.bump(&format!("c20x.{}", what));
        if STRING_KINDS.contains(&kind) {
            let mut sa = mk_string(&mut rng, &a);
            let mut sb = mk_string(&mut rng, &b);
            let mut model_a = sa.as_str().to_string();
            let model_b = sb.as_str().to_string();
            let o0 = stats(&b);
            match kind {
                5 => {
                    sa.push_str(&sb);
                    model_a.push_str(&model_b);
                }
                8 => {
                    sa.extend(sb.chars());
                    model_a.push_str(&model_b);
                }
                9 => {
                    // Extend<String<'bump>>: the strings handed over live in the other arena
                    let parts: Vec<BString> = (0..rng.below(4)).map(|_| mk_string(&mut rng, &b)).collect();
                    for p in &parts {
                        model_a.push_str(p.as_str());
                    }
                    // (the consumed strings are dropped inside: their own arena may take their buffers back)
                    sa.extend(parts);
                }
                10 => {
                    let parts: Vec<BString> = (0..rng.below(4)).map(|_| mk_string(&mut rng, &b)).collect();
                    for p in &parts {
                        model_a.push_str(p.as_str());
                    }
                    let o_mid = stats(&b);
                    sa.extend(parts.iter().map(|p| p.as_str()));
                    if stats(&b) != o_mid {
                        rep.violate("C20", format!("C20/cross-arena/{}/operation-on-one-arena's-string-changed-the-other-arena", what), format!("{:?} -> {:?}", o_mid, stats(&b)));
                    }
                }
                11 => {
                    sa += sb.as_str();
                    model_a.push_str(&model_b);
                }
                _ => {
                    let n = BString::from_iter_in(sb.chars(), &a);
                    model_a = model_b.clone();
                    sa = n;
                }
            }
            let o0 = if kind == 9 || kind == 10 { stats(&b) } else { o0 };
            let o1 = stats(&b);
            if o0 != o1 {
                rep.violate("C20", format!("C20/cross-arena/{}/operation-on-one-arena's-string-changed-the-other-arena", what), format!("{:?} -> {:?}", o0, o1));
            }
            if sa.as_str() != model_a || sb.as_str() != model_b {
                rep.violate("C20", format!("C20/cross-arena/{}/text-differs-from-model", what), String::new());
            }
            home_check(rep, what, "A", sa.bump(), &a);
            home_check(rep, what, "B", sb.bump(), &b);
            // grow each and watch the other
            let (a0, b0) = (stats(&a), stats(&b));
            for _ in 0..rng.range(1, 200) {
                sa.push_str("grow");
            }
            if stats(&b) != b0 {
                rep.violate("C20", format!("C20/cross-arena/{}/growing-a-string-of-one-arena-changed-the-other-arena", what), format!("{:?} -> {:?}", b0, stats(&b)));
            }
            let a1 = stats(&a);
            for _ in 0..rng.range(1, 200) {
                sb.push_str("grow");
            }
            if stats(&a) != a1 {
                rep.violate("C20", format!("C20/cross-arena/{}/growing-a-string-of-one-arena-changed-the-other-arena", what), format!("{:?} -> {:?}", a1, stats(&a)));
            }
            let _ = a0;
            rep.bump("c20.cross_arena_growth_watched");
            rep.distinct.insert(fnv(kind as u64, fnv(sa.len() as u64, sb.len() as u64)));
            continue;
        }
        let mut va = mk_vec(&mut rng, &a, &mut next);
        let mut vb = mk_vec(&mut rng, &b, &mut next);
        let mut ma: Vec<u64> = va.iter().copied().collect();
        let mut mb: Vec<u64> = vb.iter().copied().collect();
        rep.distinct.insert(fnv(kind as u64, fnv(fnv(va.len() as u64, va.capacity() as u64), fnv(vb.len() as u64, vb.capacity() as u64))));
        let (sa0, sb0) = (stats(&a), stats(&b));
        match kind {
            0 => {
                va.append(&mut vb);
                ma.append(&mut mb);
                // only the receiving arena may have been asked for memory
                if stats(&b) != sb0 {
                    rep.violate("C20", format!("C20/cross-arena/{}/source-arena-changed", what), format!("{:?} -> {:?}", sb0, stats(&b)));
                }
            }
            1 => {
                vb.append(&mut va);
                mb.append(&mut ma);
                if stats(&a) != sa0 {
                    rep.violate("C20", format!("C20/cross-arena/{}/source-arena-changed", what), format!("{:?} -> {:?}", sa0, stats(&a)));
                }
            }
            2 => {
                va.extend(vb.drain(..));
                ma.extend(mb.drain(..));
                if stats(&b) != sb0 {
                    rep.violate("C20", format!("C20/cross-arena/{}/source-arena-changed", what), format!("{:?} -> {:?}", sb0, stats(&b)));
                }
            }
            3 => {
                va.extend_from_slice(&vb);
                ma.extend_from_slice(&mb);
                if stats(&b) != sb0 {
                    rep.violate("C20", format!("C20/cross-arena/{}/source-arena-changed", what), format!("{:?} -> {:?}", sb0, stats(&b)));
                }
            }
            4 => {
                let lo = rng.below(va.len() + 1);
                let hi = lo + rng.below(va.len() - lo + 1);
                let removed: Vec<u64> = va.splice(lo..hi, vb.drain(..)).collect();
                let removed_m: Vec<u64> = ma.splice(lo..hi, mb.drain(..)).collect();
                if removed != removed_m {
                    rep.violate("C20", format!("C20/cross-arena/{}/removed-items-differ-from-model", what), String::new());
                }
                if stats(&b) != sb0 {
                    rep.violate("C20", format!("C20/cross-arena/{}/source-arena-changed", what), format!("{:?} -> {:?}", sb0, stats(&b)));
                }
            }
            6 => {
                let n = BVec::from_iter_in(vb.iter().copied(), &a);
                va = n;
                ma = mb.clone();
                if stats(&b) != sb0 {
                    rep.violate("C20", format!("C20/cross-arena/{}/source-arena-changed", what), format!("{:?} -> {:?}", sb0, stats(&b)));
                }
            }
            13 => {
                // Extend<T> by value from the other arena's vector (consumed)
                let taken = std::mem::replace(&mut vb, BVec::new_in(&b));
                va.extend(taken.into_iter());
                ma.extend(mb.drain(..));
            }
            14 => {
                let extra: Vec<u64> = (0..rng.below(5)).map(|i| 7000 + i as u64).collect();
                va.extend_from_slices_copy(&[&vb[..], &extra[..], &vb[..]]);
                ma.extend_from_slice(&mb);
                ma.extend_from_slice(&extra);
                ma.extend_from_slice(&mb.clone());
                if stats(&b) != sb0 {
                    rep.violate("C20", format!("C20/cross-arena/{}/source-arena-changed", what), format!("{:?} -> {:?}", sb0, stats(&b)));
                }
            }
            _ => {
                // a clone of B's vector lives in B's arena (that is where `clone` allocates); extending A's
                // vector from it leaves B alone afterwards
                let c = vb.clone();
                home_check(rep, what, "B (clone)", c.bump(), &b);
                let sb1 = stats(&b);
                va.extend(c.iter().copied());
                ma.extend(mb.iter().copied());
                if stats(&b) != sb1 {
                    rep.violate("C20", format!("C20/cross-arena/{}/source-arena-changed", what), format!("{:?} -> {:?}", sb1, stats(&b)));
                }
            }
        }
        if va[..] != ma[..] || vb[..] != mb[..] {
            rep.violate("C20", format!("C20/cross-arena/{}/contents-differ-from-model", what), format!("A {:?} vs {:?}; B {:?} vs {:?}", &va[..va.len().min(6)], &ma[..ma.len().min(6)], &vb[..vb.len().min(6)], &mb[..mb.len().min(6)]));
        }
        home_check(rep, what, "A", va.bump(), &a);
        home_check(rep, what, "B", vb.bump(), &b);
        let n1 = rng.range(1, 120) as usize;
        let n2 = rng.range(1, 120) as usize;
        if rng.chance(1, 2) {
            grow_and_watch(rep, what, "A", &mut va, n1, &a, &b);
            grow_and_watch(rep, what, "B", &mut vb, n2, &b, &a);
        } else {
            grow_and_watch(rep, what, "B", &mut vb, n2, &b, &a);
            grow_and_watch(rep, what, "A", &mut va, n1, &a, &b);
        }
        // dropping one arena's vector never touches the other arena either
        let sb2 = stats(&b);
        drop(va);
        if stats(&b) != sb2 {
            rep.violate("C20", format!("C20/cross-arena/{}/dropping-a-vector-of-one-arena-changed-the-other-arena", what), format!("{:?} -> {:?}", sb2, stats(&b)));
        }
        let sa2 = stats(&a);
        drop(vb);
        if stats(&a) != sa2 {
            rep.violate("C20", format!("C20/cross-arena/{}/dropping-a-vector-of-one-arena-changed-the-other-arena", what), format!("{:?} -> {:?}", sa2, stats(&a)));
        }
    }
}


/// One step of collection-level work on an arena; returns what the arena and the container report.
fn coll_step<'a>(a: &'a Bump, k: u64, keep_s: &mut Vec<BString<'a>>, keep_v: &mut Vec<BVec<'a, u64>>) -> [usize; 4] {
    use bumpalo::collections::CollectIn;
    let n = (k >> 8) as usize % 300;
    let (len, cap) = match k % 11 {
        0 => {
            let s = bumpalo::format!(in a, "{:>1$}|{2}", k % 97, n % 90, "x".repeat(n % 40));
            let r = (s.len(), s.capacity());
            keep_s.push(s);
            r
        }
        1 => {
            let s = bumpalo::format!(in a, "{}", k);
            let r = (s.len(), s.capacity());
            keep_s.push(s);
            r
        }
        2 => {
            let s = BString::from_str_in(&"é".repeat(n % 50), a);
            let r = (s.len(), s.capacity());
            keep_s.push(s);
            r
        }
        3 => {
            let v: BVec<u64> = bumpalo::vec![in a; k; n % 60];
            let r = (v.len(), v.capacity());
            keep_v.push(v);
            r
        }
        4 => {
            let v: BVec<u64> = (0..(n % 70) as u64).collect_in(a);
            let r = (v.len(), v.capacity());
            keep_v.push(v);
            r
        }
        5 => {
            if let Some(v) = keep_v.last_mut() {
                for i in 0..(n % 30) as u64 {
                    v.push(i);
                }
                (v.len(), v.capacity())
            } else {
                (0, 0)
            }
        }
        6 => {
            if let Some(s) = keep_s.last_mut() {
                use std::fmt::Write;
                let _ = write!(s, "{:08x}{}", k, "y".repeat(n % 25));
                (s.len(), s.capacity())
            } else {
                (0, 0)
            }
        }
        7 => {
            let bx = bumpalo::boxed::Box::new_in([k; 5], a);
            let r = (bx.len(), 5);
            std::mem::forget(bx);
            r
        }
        8 => {
            if keep_s.len() > 1 {
                let s = keep_s.remove(0);
                drop(s);
            }
            if keep_v.len() > 1 {
                let mut v = keep_v.remove(0);
                v.shrink_to_fit();
                let r = (v.len(), v.capacity());
                keep_v.push(v);
                r
            } else {
                (0, 0)
            }
        }
        9 => {
            // a reservation that this arena's limit refuses (the limit is lifted again right away)
            let mut v: BVec<u32> = BVec::with_capacity_in(2, a);
            a.set_allocation_limit(Some(a.allocated_bytes()));
            let refused = v.try_reserve(100_000 + n).is_err();
            a.set_allocation_limit(None);
            for i in 0..(n % 20) as u32 {
                v.push(i);
            }
            let r = (v.len() + refused as usize * 1000, v.capacity());
            std::mem::forget(v);
            r
        }
        _ => {
            let s = BString::from_utf8_lossy_in(&[b'a', 0xFF, b'b', (k % 200) as u8], a);
            let r = (s.len(), s.capacity());
            keep_s.push(s);
            r
        }
    };
    [len, cap, a.allocated_bytes(), a.chunk_capacity()]
}

/// C20 at the collections layer, solo against interleaved: the same collection-level program on arena Y
/// reports the same lengths, capacities and arena statistics whether or not another arena X is doing
/// (different) collection work in between: macros, formatting, decoders included.
pub fn collections_twin(args: &Args, rep: &mut Report) {
    let mut top = Rng::new(Rng::mix(args.seed ^ 0x7C20, args.shard));
    let rounds = if cfg!(miri) { 2 } else { (args.iters / 20).max(10) };
    for it in 0..rounds {
        let pseed = top.next();
        let steps = if cfg!(miri) { 12 } else { 60 };
        let prog: Vec<u64> = {
            let mut r = Rng::new(pseed);
            (0..steps).map(|_| r.next()).collect()
        };
        let cap0 = (pseed >> 40) as usize % 3;
        let mk = |c: usize| match c {
            0 => Bump::new(),
            1 => Bump::with_capacity(100),
            _ => Bump::with_capacity(3000),
        };
        rep.ctx = format!("c20 collections twin {} (seed {} shard {})", it, args.seed, args.shard);
        // solo
        let solo: Vec<[usize; 4]> = {
            let y = mk(cap0);
            let (mut ks, mut kv) = (Vec::new(), Vec::new());
            prog.iter().map(|k| coll_step(&y, *k, &mut ks, &mut kv)).collect()
        };
        // interleaved with another arena doing different work (before the first step as well)
        let mixed: Vec<[usize; 4]> = {
            let x = mk((cap0 + 1) % 3);
            let y = mk(cap0);
            let mut other = Rng::new(pseed ^ 0xABCD_EF01);
            let (mut ks, mut kv) = (Vec::new(), Vec::new());
            let (mut xs, mut xv) = (Vec::new(), Vec::new());
            let mut out = Vec::new();
            for k in &prog {
                for _ in 0..other.below(3) + 1 {
                    let kk = other.next();
                    coll_step(&x, kk, &mut xs, &mut xv);
                }
                out.push(coll_step(&y, *k, &mut ks, &mut kv));
            }
            out
        };
        rep.evaluations += 1;
        rep.distinct.insert(fnv(pseed, cap0 as u64));
        rep.add("c20.collection_twin_steps_compared", solo.len() as u64);
        if let Some(i) = (0..solo.len()).find(|&i| solo[i] != mixed[i]) {
            rep.violate(
                "C20",
                format!("C20/collections-twin/solo-and-interleaved-runs-differ/step-kind-{}", prog[i] % 11),
                format!("step {}: alone (len, capacity, allocated_bytes, chunk_capacity) = {:?}, with another arena working in between = {:?}", i, solo[i], mixed[i]),
            );
        }
        if rep.violations.len() >= rep.max_violations {
            return;
        }
    }
}
