//! Workload "arena": random steered histories on one arena with all structural monitors on.
//! Workload "uniform": uniform-alignment histories for the exact-image clause of C10.
use crate::arena::*;
use crate::gen::{self, Profile};
use crate::halloc::{self, Env};
use crate::json::J;
use crate::report::{fnv, Report};
use crate::rng::Rng;
use crate::Args;

#[macro_export]
macro_rules! dispatch_ma {
    ($ma:expr, $f:ident, $($arg:expr),*) => {
        match $ma {
            1 => $f::<1>($($arg),*),
            2 => $f::<2>($($arg),*),
            4 => $f::<4>($($arg),*),
            8 => $f::<8>($($arg),*),
            _ => $f::<16>($($arg),*),
        }
    };
}

pub fn run(args: &Args, rep: &mut Report) {
    dispatch_ma!(args.ma, run_m, args, rep)
}

fn run_m<const M: usize>(args: &Args, rep: &mut Report) {
    let profile = Profile::by_name(&args.profile);
    let mut top = Rng::new(Rng::mix(args.seed, args.shard ^ ((M as u64) << 40)));
    for it in 0..args.iters {
        let hseed = top.next();
        let env = Env::from_seed(hseed >> 8, args.instrumented);
        env.apply(hseed);
        ledger_reset();
        let cap = match hseed % 5 {
            0 => Some(((hseed >> 16) % 5000) as usize),
            1 => Some(0),
            _ => None,
        };
        rep.ctx = format!("history {} (seed {} shard {} M {} profile {})", it, args.seed, args.shard, M, profile.name);
        let mut s = match Sim::<M>::new(hseed, rep, cap, hseed & 64 != 0) {
            Some(s) => s,
            None => continue,
        };
        s.instrumented = args.instrumented;
        s.verify_every = args.get_usize("verify_every", 1);
        let mut sig = 0u64;
        let mut maxchunks = 0usize;
        for opi in 0..args.ops {
            rep.ctx = format!("history {} op {} (seed {} shard {} M {} profile {})", it, opi, args.seed, args.shard, M, profile.name);
            let (k, _) = gen::step(&mut s, rep, &profile);
            sig = fnv(sig, k as u64);
            // coverage: fast-path situation of this op
            maxchunks = maxchunks.max(s.chunks.len());
            if args.verbose {
                eprintln!("[{}:{}] {} chunks={} live={} cap={}", it, opi, s.cur, s.chunks.len(), s.live.len(), s.bump.chunk_capacity());
            }
            if rep.violations.len() >= rep.max_violations {
                break;
            }
        }
        halloc::set_refuse(halloc::Refuse::None);
        rep.max("max_chunks_in_history", maxchunks as u64);
        rep.bump(&format!("chunks_hist.{}", match maxchunks { 0 => "0", 1 => "1", 2..=3 => "2-3", 4..=7 => "4-7", _ => "8+" }));
        if it == 0 && rep.samples.is_empty() {
            let mut j = J::obj();
            j.set("history_seed", J::i(hseed));
            j.set("min_align", J::i(M as u64));
            j.set("last_ops", J::s(s.cur.clone()));
            rep.sample(j);
        }
        if top.chance(1, 8) {
            s.drop_arena_on_other_thread(rep);
        } else {
            s.drop_arena(rep);
        }
        rep.evaluations += 1;
        rep.distinct.insert(fnv(sig, maxchunks as u64));
        if rep.violations.len() >= rep.max_violations {
            break;
        }
    }
    let (c, r) = halloc::totals();
    rep.add("env.candidate_requests", c);
    rep.add("env.refusals_injected", r);
}

fn ledger_reset() {
    crate::ledger::reset();
}

pub fn run_uniform(args: &Args, rep: &mut Report) {
    dispatch_ma!(args.ma, run_uniform_m, args, rep)
}

fn run_uniform_m<const M: usize>(args: &Args, rep: &mut Report) {
    let mut top = Rng::new(Rng::mix(args.seed ^ 0x55, args.shard ^ ((M as u64) << 40)));
    let aligns: Vec<usize> = [1usize, 2, 4, 8, 16].iter().copied().filter(|a| *a >= M).collect();
    for it in 0..args.iters {
        let hseed = top.next();
        let a = aligns[(hseed % aligns.len() as u64) as usize];
        let env = Env::from_seed(hseed >> 8, args.instrumented);
        env.apply(hseed);
        ledger_reset();
        let cap = if hseed & 16 != 0 { Some(((hseed >> 16) % 3000) as usize) } else { None };
        rep.ctx = format!("uniform history {} (seed {} shard {} M {} a {})", it, args.seed, args.shard, M, a);
        let mut s = match Sim::<M>::new(hseed, rep, cap, false) {
            Some(s) => s,
            None => continue,
        };
        s.uniform = Some(a);
        let mut maxchunks = 0;
        for opi in 0..args.ops {
            rep.ctx = format!("uniform history {} op {} (seed {} shard {} M {} a {})", it, opi, args.seed, args.shard, M, a);
            gen::step_uniform(&mut s, rep, a);
            maxchunks = maxchunks.max(s.chunks.len());
            if args.verbose {
                eprintln!("[{}:{}] {} chunks={} live={}", it, opi, s.cur, s.chunks.len(), s.live.len());
            }
            if rep.violations.len() >= rep.max_violations {
                break;
            }
        }
        rep.bump(&format!("uniform.align_{}", a));
        rep.max("max_chunks_in_history", maxchunks as u64);
        s.drop_arena(rep);
        rep.evaluations += 1;
        rep.distinct.insert(fnv(hseed, maxchunks as u64));
        if rep.violations.len() >= rep.max_violations {
            break;
        }
    }
}
