//! Operations of the arena engine (every allocation flavour, Allocator calls, reset, limits,
//! iteration) and the steered random generator.
#![allow(dead_code)]

use crate::arena::*;
use crate::halloc::{self, EV_ALLOC, RES_OK};
use crate::ledger::Tracked;
use crate::report::Report;
use allocator_api2::alloc::Allocator;
use bumpalo::Bump;
use std::alloc::Layout;
use std::mem::{align_of, size_of, MaybeUninit};
use std::panic::{catch_unwind, AssertUnwindSafe};
use std::ptr::NonNull;

#[repr(align(32))]
#[derive(Clone, Copy)]
pub struct A32(pub [u8; 32]);
#[repr(align(64))]
#[derive(Clone, Copy)]
pub struct A64(pub [u8; 64]);
#[repr(align(256))]
#[derive(Clone, Copy)]
pub struct A256(pub [u8; 256]);

/// build a T (any bit pattern valid, no padding) from the id pattern
pub unsafe fn from_pat<T: Copy>(id: u32, idx: usize) -> T {
    let mut m = MaybeUninit::<T>::uninit();
    let p = m.as_mut_ptr() as *mut u8;
    for k in 0..size_of::<T>() {
        p.add(k).write(pat(id, idx * size_of::<T>() + k));
    }
    m.assume_init()
}
pub fn pat_bytes(id: u32, n: usize) -> Vec<u8> {
    let mut tile = [0u8; TILE];
    for (i, t) in tile.iter_mut().enumerate() {
        *t = pat(id, i);
    }
    let mut v = Vec::with_capacity(n);
    while v.len() + TILE <= n {
        v.extend_from_slice(&tile);
    }
    let rest = n - v.len();
    v.extend_from_slice(&tile[..rest]);
    v
}

/// Outcome of a single allocation-like op
#[derive(Debug, Clone, Copy, PartialEq, Eq)]
pub enum Outcome {
    Ok,
    Err,
    Panic,
}

#[derive(Clone, Copy, Debug, PartialEq, Eq)]
pub enum Flavour {
    Plain,    // alloc / alloc_slice_copy ...
    Try,      // try_alloc ...
    With,     // alloc_with
    TryWith,  // try_alloc_with
}

macro_rules! with_type {
    ($idx:expr, $T:ident, $body:block) => {
        match $idx {
            0 => { type $T = u8; $body }
            1 => { type $T = u16; $body }
            2 => { type $T = u32; $body }
            3 => { type $T = u64; $body }
            4 => { type $T = u128; $body }
            5 => { type $T = [u8; 3]; $body }
            6 => { type $T = [u8; 24]; $body }
            7 => { type $T = A32; $body }
            8 => { type $T = A64; $body }
            9 => { type $T = [u64; 40]; $body }
            10 => { type $T = (); $body }
            11 => { type $T = [u16; 5]; $body }
            12 => { type $T = A256; $body }
            13 => { type $T = [u32; 300]; $body }
            _ => { type $T = [u128; 2]; $body }
        }
    };
}
pub const NTYPES: usize = 15;
pub fn type_layout(idx: usize) -> (usize, usize) {
    with_type!(idx, T, { (size_of::<T>(), align_of::<T>()) })
}

impl<const M: usize> Sim<M> {
    fn fits_clearly(&self, size: usize, align: usize) -> bool {
        align <= M && round_up(size, M) <= self.bump.chunk_capacity()
    }

    /// common tail for a failed allocation op: C07/C09 "fitting request must succeed", panic class
    fn on_alloc_failure(&mut self, rep: &mut Report, fallible: bool, panicked: bool, size: usize, align: usize, cap_before: usize, what: &str) {
        if panicked {
            let msg = last_panic();
            let cls = classify_panic(&msg);
            if fallible {
                rep.violate("C09", format!("C09/try-method-panicked/{}/{}", what, normalise_msg(&msg)), format!("{} ({})", msg, self.cur));
            } else if cls == PanicClass::Other {
                let p = if msg.contains("aligned") { "C04" } else { "C01" };
                rep.violate(p, format!("{}/unexpected-panic/{}/{}", p, what, normalise_msg(&msg)), format!("{} ({})", msg, self.cur));
            }
        }
        if align <= M && round_up(size, M) <= cap_before && size <= isize::MAX as usize {
            let p = if self.limit.is_some() { "C07" } else { "C09" };
            rep.violate(p, format!("{}/fitting-request-failed/{}", p, what), format!("size {} align {} capacity-before {} limit {:?} ({})", size, align, cap_before, self.limit, self.cur));
        } else if align > M && align <= (1 << 20) && size <= (1 << 30) && round_up(size, align) + align - 1 <= cap_before {
            // over-aligned request: wherever the finger stands, the rounded size plus the worst-case padding fits
            let p = if self.limit.is_some() { "C07" } else { "C09" };
            rep.violate(p, format!("{}/fitting-request-failed/{}/over-aligned", p, what), format!("size {} align {} capacity-before {} limit {:?} ({})", size, align, cap_before, self.limit, self.cur));
        }
        rep.bump("ops.alloc_failed");
        if let Some(before) = self.last_obs.take() {
            self.check_unchanged_after_failure(rep, &before, what);
            self.last_obs = Some(before);
        }
    }

    /// alloc_layout / try_alloc_layout; harness fills the block with its pattern.
    pub fn op_alloc_layout(&mut self, rep: &mut Report, size: usize, align: usize, fallible: bool) -> Outcome {
        self.cur = format!("{}alloc_layout({},{})", if fallible { "try_" } else { "" }, size, align);
        let layout = match Layout::from_size_align(size, align) {
            Ok(l) => l,
            Err(_) => return Outcome::Err,
        };
        let cap_before = self.bump.chunk_capacity();
        self.begin();
        let r = catch_unwind(AssertUnwindSafe(|| {
            if fallible {
                self.bump.try_alloc_layout(layout).ok()
            } else {
                Some(self.bump.alloc_layout(layout))
            }
        }));
        let ev = self.end(rep, OpKind::Alloc);
        {
            // measured coverage of the allocation fast path: which alignment branch, what happened,
            // and where the finger stood (residue mod 16) when the request arrived
            let branch = if align < M { "less" } else if align == M { "equal" } else { "greater" };
            let what = match &r {
                Ok(Some(_)) => {
                    if self.acquired > 0 {
                        "newchunk"
                    } else {
                        "fit"
                    }
                }
                _ => "fail",
            };
            let cls = if size == 0 { "zst" } else if size <= cap_before { "le_cap" } else { "gt_cap" };
            let finger_res = self.last_obs.as_ref().and_then(|o| o.chunks.first().map(|c| c.0 % 16)).unwrap_or(99);
            rep.bump(&format!("path.{}.{}.{}", branch, what, cls));
            rep.paths.insert(crate::report::fnv(crate::report::fnv(0xFA57, branch.len() as u64 * 16 + what.len() as u64), crate::report::fnv(cls.len() as u64 * 64 + finger_res as u64, (align.trailing_zeros() as u64) << 8 | M as u64)));
        }
        let out = match r {
            Ok(Some(p)) => {
                let id = self.next_id;
                let exp = pat_bytes(id, size);
                if let Some(_) = self.register(rep, p.as_ptr(), size, align, exp, Some((size, align)), "alloc_layout") {
                    if size > 0 {
                        unsafe {
                            fill(p.as_ptr(), &pat_bytes(id, size));
                        }
                    }
                }
                Outcome::Ok
            }
            Ok(None) => {
                self.on_alloc_failure(rep, fallible, false, size, align, cap_before, "alloc_layout");
                Outcome::Err
            }
            Err(_) => {
                self.on_alloc_failure(rep, fallible, true, size, align, cap_before, "alloc_layout");
                Outcome::Panic
            }
        };
        self.after_op(rep, OpKind::Alloc, &ev);
        self.tr(&[10, out as u64]);
        out
    }

    /// alloc / try_alloc / alloc_with / try_alloc_with of a typed value
    pub fn op_alloc_val(&mut self, rep: &mut Report, ty: usize, fl: Flavour) -> Outcome {
        with_type!(ty, T, { self.alloc_val_t::<T>(rep, fl) })
    }

    fn alloc_val_t<T: Copy + 'static>(&mut self, rep: &mut Report, fl: Flavour) -> Outcome {
        let size = size_of::<T>();
        let align = align_of::<T>();
        self.cur = format!("alloc_val<{}B,a{}>({:?})", size, align, fl);
        let id = self.next_id;
        let v: T = unsafe { from_pat::<T>(id, 0) };
        let cap_before = self.bump.chunk_capacity();
        let mut calls = 0u32;
        self.begin();
        let r = catch_unwind(AssertUnwindSafe(|| match fl {
            Flavour::Plain => Some(self.bump.alloc(v) as *mut T),
            Flavour::Try => self.bump.try_alloc(v).ok().map(|r| r as *mut T),
            Flavour::With => Some(self.bump.alloc_with(|| {
                calls += 1;
                v
            }) as *mut T),
            Flavour::TryWith => self
                .bump
                .try_alloc_with(|| {
                    calls += 1;
                    v
                })
                .ok()
                .map(|r| r as *mut T),
        }));
        let ev = self.end(rep, OpKind::Alloc);
        let fallible = matches!(fl, Flavour::Try | Flavour::TryWith);
        let out = match r {
            Ok(Some(p)) => {
                if matches!(fl, Flavour::With | Flavour::TryWith) && calls != 1 {
                    rep.violate("C02", "C02/initialiser-call-count/alloc_with", format!("called {} times", calls));
                }
                self.register(rep, p as *mut u8, size, align, pat_bytes(id, size), Some((size, align)), "alloc_val");
                Outcome::Ok
            }
            Ok(None) => {
                if calls != 0 {
                    rep.violate("C11", "C11/initialiser-ran-although-reservation-failed/try_alloc_with", self.cur.clone());
                }
                self.on_alloc_failure(rep, fallible, false, size, align, cap_before, "alloc_val");
                Outcome::Err
            }
            Err(_) => {
                self.on_alloc_failure(rep, fallible, true, size, align, cap_before, "alloc_val");
                Outcome::Panic
            }
        };
        self.after_op(rep, OpKind::Alloc, &ev);
        self.tr(&[11, out as u64]);
        out
    }

    /// slice flavours: 0 copy, 1 clone, 2 fill_with, 3 fill_copy, 4 fill_clone, 5 fill_iter, 6 fill_default(u8 zero), 7 str
    pub fn op_alloc_slice(&mut self, rep: &mut Report, ty: usize, len: usize, kind: u8, fallible: bool) -> Outcome {
        with_type!(ty, T, { self.alloc_slice_t::<T>(rep, len, kind, fallible) })
    }

    fn alloc_slice_t<T: Copy + 'static>(&mut self, rep: &mut Report, len: usize, kind: u8, fallible: bool) -> Outcome {
        let esz = size_of::<T>();
        let align = align_of::<T>();
        let size = esz * len;
        self.cur = format!("{}alloc_slice<{}B,a{}>(len={},kind={})", if fallible { "try_" } else { "" }, esz, align, len, kind);
        let id = self.next_id;
        let src: Vec<T> = (0..len).map(|i| unsafe { from_pat::<T>(id, i) }).collect();
        let mut order: Vec<usize> = Vec::with_capacity(len + 1);
        let cap_before = self.bump.chunk_capacity();
        // exp depends on kind
        let fillv: T = unsafe { from_pat::<T>(id, 0) };
        let exp: Vec<u8> = match kind {
            3 | 4 => {
                let one = pat_bytes(id, esz);
                let mut v = Vec::with_capacity(size);
                for _ in 0..len {
                    v.extend_from_slice(&one);
                }
                v
            }
            _ => pat_bytes(id, size),
        };
        self.begin();
        let b: &Bump<M> = &**self.bump;
        let r = catch_unwind(AssertUnwindSafe(|| -> Option<*mut T> {
            match (kind, fallible) {
                (0, false) => Some(b.alloc_slice_copy(&src).as_mut_ptr()),
                (0, true) => b.try_alloc_slice_copy(&src).ok().map(|s| s.as_mut_ptr()),
                (1, false) => Some(b.alloc_slice_clone(&src).as_mut_ptr()),
                (1, true) => b.try_alloc_slice_clone(&src).ok().map(|s| s.as_mut_ptr()),
                (2, false) => Some(
                    b.alloc_slice_fill_with(len, |i| {
                        order.push(i);
                        src[i]
                    })
                    .as_mut_ptr(),
                ),
                (2, true) => b
                    .try_alloc_slice_fill_with(len, |i| {
                        order.push(i);
                        src[i]
                    })
                    .ok()
                    .map(|s| s.as_mut_ptr()),
                (3, false) => Some(b.alloc_slice_fill_copy(len, fillv).as_mut_ptr()),
                (3, true) => b.try_alloc_slice_fill_copy(len, fillv).ok().map(|s| s.as_mut_ptr()),
                (4, false) => Some(b.alloc_slice_fill_clone(len, &fillv).as_mut_ptr()),
                (4, true) => b.try_alloc_slice_fill_clone(len, &fillv).ok().map(|s| s.as_mut_ptr()),
                (6, f) => {
                    // an ExactSizeIterator (a safe trait) that under-reports its length: the slice
                    // must have exactly len() elements and nothing may be written beyond it
                    struct Liar<'a, T: Copy> {
                        src: &'a [T],
                        i: usize,
                        extra: usize,
                    }
                    impl<'a, T: Copy> Iterator for Liar<'a, T> {
                        type Item = T;
                        fn next(&mut self) -> Option<T> {
                            if self.i < self.src.len() + self.extra {
                                let v = self.src[self.i % self.src.len().max(1)];
                                self.i += 1;
                                Some(v)
                            } else {
                                None
                            }
                        }
                        fn size_hint(&self) -> (usize, Option<usize>) {
                            let n = self.src.len().saturating_sub(self.i.min(self.src.len()));
                            (n, Some(n))
                        }
                    }
                    impl<'a, T: Copy> ExactSizeIterator for Liar<'a, T> {}
                    let it = Liar { src: &src, i: 0, extra: if src.is_empty() { 0 } else { 1 + len % 7 } };
                    if f {
                        b.try_alloc_slice_fill_iter(it).ok().map(|s| {
                            assert_eq!(s.len(), len);
                            s.as_mut_ptr()
                        })
                    } else {
                        let s = b.alloc_slice_fill_iter(it);
                        assert_eq!(s.len(), len);
                        Some(s.as_mut_ptr())
                    }
                }
                (_, false) => Some(
                    b.alloc_slice_fill_iter(src.iter().enumerate().map(|(i, v)| {
                        order.push(i);
                        *v
                    }))
                    .as_mut_ptr(),
                ),
                (_, true) => b
                    .try_alloc_slice_fill_iter(src.iter().enumerate().map(|(i, v)| {
                        order.push(i);
                        *v
                    }))
                    .ok()
                    .map(|s| s.as_mut_ptr()),
            }
        }));
        let ev = self.end(rep, OpKind::Alloc);
        let out = match r {
            Ok(Some(p)) => {
                if kind == 2 || kind == 5 {
                    let good = order.len() == len && order.iter().enumerate().all(|(i, &x)| i == x);
                    if !good {
                        rep.violate("C02", "C02/initialiser-call-order/slice", format!("len {} calls {:?}", len, &order[..order.len().min(12)]));
                    }
                    rep.bump("c02.closure_logs_checked");
                }
                self.register(rep, p as *mut u8, size, align, exp, Some((size, align)), "alloc_slice");
                Outcome::Ok
            }
            Ok(None) => {
                if !order.is_empty() {
                    rep.violate("C11", "C11/initialiser-ran-although-reservation-failed/slice", self.cur.clone());
                }
                self.on_alloc_failure(rep, fallible, false, size, align, cap_before, "alloc_slice");
                Outcome::Err
            }
            Err(_) => {
                self.on_alloc_failure(rep, fallible, true, size, align, cap_before, "alloc_slice");
                Outcome::Panic
            }
        };
        self.after_op(rep, OpKind::Alloc, &ev);
        self.tr(&[12, out as u64]);
        out
    }

    pub fn op_alloc_str(&mut self, rep: &mut Report, len: usize, fallible: bool) -> Outcome {
        self.cur = format!("{}alloc_str(len={})", if fallible { "try_" } else { "" }, len);
        let id = self.next_id;
        // build valid UTF-8 of exactly `len` bytes mixing widths
        let mut s = String::with_capacity(len + 4);
        let chars = ['a', 'é', '€', '😀', 'z', 'ß'];
        let mut i = 0usize;
        while s.len() < len {
            let c = chars[(id as usize + i) % chars.len()];
            if s.len() + c.len_utf8() <= len {
                s.push(c);
            } else {
                s.push('x');
            }
            i += 1;
        }
        let cap_before = self.bump.chunk_capacity();
        self.begin();
        let b: &Bump<M> = &**self.bump;
        let r = catch_unwind(AssertUnwindSafe(|| {
            if fallible {
                b.try_alloc_str(&s).ok().map(|x| x.as_mut_ptr())
            } else {
                Some(b.alloc_str(&s).as_mut_ptr())
            }
        }));
        let ev = self.end(rep, OpKind::Alloc);
        let out = match r {
            Ok(Some(p)) => {
                self.register(rep, p, len, 1, s.as_bytes().to_vec(), Some((len, 1)), "alloc_str");
                Outcome::Ok
            }
            Ok(None) => {
                self.on_alloc_failure(rep, fallible, false, len, 1, cap_before, "alloc_str");
                Outcome::Err
            }
            Err(_) => {
                self.on_alloc_failure(rep, fallible, true, len, 1, cap_before, "alloc_str");
                Outcome::Panic
            }
        };
        self.after_op(rep, OpKind::Alloc, &ev);
        self.tr(&[13, out as u64]);
        out
    }

    /// alloc_try_with / try_alloc_try_with.  `inner`: 0 nothing, 1 allocate-and-keep, 2 allocate-and-release.
    /// After a failure with inner==0 (and `probe`), the same layout is requested again and must not
    /// cost a global-allocator call (C11).
    pub fn op_try_with(&mut self, rep: &mut Report, ty: usize, fallible: bool, ok: bool, inner: u8, probe: bool) -> Outcome {
        with_type!(ty, T, { self.try_with_t::<T>(rep, fallible, ok, inner, probe) })
    }

    fn try_with_t<T: Copy + 'static>(&mut self, rep: &mut Report, fallible: bool, ok: bool, inner: u8, probe: bool) -> Outcome {
        let size = size_of::<T>();
        let align = align_of::<T>();
        let slot = Layout::new::<Result<T, Tracked>>();
        self.cur = format!("{}alloc_try_with<{}B,a{}>(ok={},inner={})", if fallible { "try_" } else { "" }, size, align, ok, inner);
        let id = self.next_id;
        self.next_id += 1; // reserve: the inner block takes its own id
        let v: T = unsafe { from_pat::<T>(id, 0) };
        let cap_before = self.bump.chunk_capacity();
        let chunks_before = self.chunks.len();
        let mut calls = 0u32;
        let mut kept: Option<(*mut u8, usize, u32)> = None;
        let inner_id = self.next_id;
        let mut err_id: Option<u32> = None;
        let ledger_mark = crate::ledger::log_len();
        self.begin();
        let b: &Bump<M> = &**self.bump;
        let f = || -> Result<T, Tracked> {
            calls += 1;
            if inner != 0 {
                halloc::new_call_in_window();
            }
            match inner {
                1 => {
                    if let Ok(p) = b.try_alloc_layout(Layout::from_size_align(24, 8).unwrap()) {
                        unsafe {
                            fill(p.as_ptr(), &pat_bytes(inner_id, 24));
                        }
                        kept = Some((p.as_ptr(), 24, inner_id));
                    }
                }
                2 => {
                    let l = Layout::from_size_align(40, 8).unwrap();
                    if let Ok(p) = b.allocate(l) {
                        unsafe { b.deallocate(p.cast(), l) };
                    }
                }
                _ => {}
            }
            if ok {
                Ok(v)
            } else {
                let t = Tracked::new(7);
                err_id = Some(t.id);
                Err(t)
            }
        };
        // 0 ok(ptr), 1 init-err(e), 2 alloc-err
        let r = catch_unwind(AssertUnwindSafe(|| -> (u8, *mut T, Option<Tracked>) {
            if fallible {
                match b.try_alloc_try_with(f) {
                    Ok(r) => (0, r as *mut T, None),
                    Err(bumpalo::AllocOrInitError::Init(e)) => (1, std::ptr::null_mut(), Some(e)),
                    Err(bumpalo::AllocOrInitError::Alloc(_)) => (2, std::ptr::null_mut(), None),
                }
            } else {
                match b.alloc_try_with(f) {
                    Ok(r) => (0, r as *mut T, None),
                    Err(e) => (1, std::ptr::null_mut(), Some(e)),
                }
            }
        }));
        let ev = self.end(rep, OpKind::Alloc);
        let mut do_probe = false;
        let out = match r {
            Ok((0, p, _)) => {
                if calls != 1 {
                    rep.violate("C02", "C02/initialiser-call-count/alloc_try_with", format!("{}", calls));
                }
                if !ok {
                    rep.violate("C11", "C11/error-swallowed/returned-ok", self.cur.clone());
                }
                // the value sits somewhere inside its Result slot: treat the slot as the extent
                let addr = p as usize;
                let off = {
                    let tmp: Result<T, Tracked> = Ok(v);
                    match &tmp {
                        Ok(t) => (t as *const T as usize) - (&tmp as *const Result<T, Tracked> as usize),
                        Err(_) => 0,
                    }
                };
                let _ = addr;
                self.next_id = id; // register under the reserved id
                self.register_ext(rep, p as *mut u8, size, align, pat_bytes(id, size), None, "alloc_try_with", slot.size().max(size), off);
                self.next_id = self.next_id.max(inner_id);
                Outcome::Ok
            }
            Ok((1, _, e)) => {
                if calls != 1 {
                    rep.violate("C02", "C02/initialiser-call-count/alloc_try_with", format!("{}", calls));
                }
                if ok {
                    rep.violate("C11", "C11/spurious-init-error", self.cur.clone());
                }
                // the error must be the one the initialiser produced, delivered exactly once
                let e = e.unwrap();
                if Some(e.id) != err_id || !e.check() {
                    rep.violate("C11", "C11/error-value-not-the-one-produced", format!("{:?} vs {:?}", e.id, err_id));
                }
                let before = crate::ledger::drops_since(ledger_mark);
                if !before.is_empty() {
                    rep.violate("C11", "C11/error-dropped-inside-arena", format!("{:?}", before));
                }
                drop(e);
                let after = crate::ledger::drops_since(ledger_mark);
                if after.len() != 1 {
                    rep.violate("C11", "C11/error-not-delivered-exactly-once", format!("drops {:?}", after));
                }
                rep.bump("c11.errors_delivered");
                do_probe = probe && inner == 0;
                Outcome::Err
            }
            Ok((_, _, _)) => {
                if calls != 0 {
                    rep.violate("C11", "C11/initialiser-ran-although-reservation-failed/try_alloc_try_with", self.cur.clone());
                }
                self.on_alloc_failure(rep, true, false, slot.size(), slot.align(), cap_before, "try_alloc_try_with");
                Outcome::Err
            }
            Err(_) => {
                if calls != 0 {
                    rep.violate("C11", "C11/initialiser-ran-although-reservation-failed/alloc_try_with", self.cur.clone());
                }
                self.on_alloc_failure(rep, fallible, true, slot.size(), slot.align(), cap_before, "alloc_try_with");
                Outcome::Panic
            }
        };
        if let Some((p, n, kid)) = kept {
            let save = self.next_id;
            self.next_id = kid;
            self.register(rep, p, n, 8, pat_bytes(kid, n), Some((n, 8)), "alloc_layout-inside-initialiser");
            if out == Outcome::Err {
                if let Some(l) = self.live.get_mut(&(p as usize)) {
                    l.tag = 1;
                    rep.bump("c11.kept_blocks_tracked");
                }
            }
            self.next_id = save.max(kid + 1);
        }
        self.next_id = self.next_id.max(inner_id + 1);
        let new_chunk = self.chunks.len() + ev.iter().filter(|e| e.kind == EV_ALLOC && e.cand && e.res == RES_OK).count() > chunks_before
            && ev.iter().any(|e| e.kind == EV_ALLOC && e.cand && e.res == RES_OK);
        self.after_op(rep, OpKind::Alloc, &ev);
        self.tr(&[14, out as u64]);
        if out == Outcome::Err && !ok {
            rep.bump(if new_chunk { "c11.rewind_new_chunk" } else { "c11.rewind_same_chunk" });
        }
        if do_probe {
            // the same layout again: no global-allocator request allowed
            self.cur = format!("probe-same-layout-after-failed-init({},{}){}", slot.size(), slot.align(), if new_chunk { "/new-chunk" } else { "/same-chunk" });
            self.begin();
            let r = self.bump.try_alloc_layout(slot);
            let ev2 = self.end(rep, OpKind::Alloc);
            let asked = ev2.iter().filter(|e| e.kind == EV_ALLOC && e.cand).count();
            if asked != 0 {
                rep.violate(
                    "C11",
                    format!("C11/reserved-space-not-reusable/{}/{}", if fallible { "try_alloc_try_with" } else { "alloc_try_with" }, if new_chunk { "new-chunk" } else { "same-chunk" }),
                    format!("same layout ({},{}) needed {} global-allocator request(s); capacity after failure {} ", slot.size(), slot.align(), asked, cap_before),
                );
            }
            rep.bump("c11.reuse_probes");
            if r.is_err() && asked == 0 {
                rep.violate("C11", format!("C11/reserved-space-not-reusable/{}/request-refused", if fallible { "try_alloc_try_with" } else { "alloc_try_with" }), format!("same layout ({},{}) was refused although the failed value's space should be free again (limit {:?})", slot.size(), slot.align(), self.limit));
            }
            if let Ok(p) = r {
                let pid = self.next_id;
                if self.register(rep, p.as_ptr(), slot.size(), slot.align(), pat_bytes(pid, slot.size()), Some((slot.size(), slot.align())), "probe").is_some() {
                    unsafe {
                        fill(p.as_ptr(), &pat_bytes(pid, slot.size()));
                    }
                }
            }
            self.after_op(rep, OpKind::Alloc, &ev2);
        }
        out
    }

    /// alloc_slice_try_fill_with / alloc_slice_try_fill_iter failing at index `fail_at` (None = succeed)
    pub fn op_slice_try_fill(&mut self, rep: &mut Report, ty: usize, len: usize, fail_at: Option<usize>, iter: bool, probe: bool) -> Outcome {
        let inner = self.slice_inner;
        with_type!(ty, T, { self.slice_try_fill_t::<T>(rep, len, fail_at, iter, probe, inner) })
    }

    fn slice_try_fill_t<T: Copy + 'static>(&mut self, rep: &mut Report, len: usize, fail_at: Option<usize>, iter: bool, probe: bool, inner: u8) -> Outcome {
        let esz = size_of::<T>();
        let align = align_of::<T>();
        let size = esz * len;
        self.cur = format!("alloc_slice_try_fill_{}<{}B,a{}>(len={},fail_at={:?})", if iter { "iter" } else { "with" }, esz, align, len, fail_at);
        let id = self.next_id;
        let src: Vec<T> = (0..len).map(|i| unsafe { from_pat::<T>(id, i) }).collect();
        let mut order: Vec<usize> = Vec::with_capacity(len + 1);
        let cap_before = self.bump.chunk_capacity();
        let mut err_id = None;
        let ledger_mark = crate::ledger::log_len();
        let mut kept: Vec<(*mut u8, u32)> = Vec::with_capacity(4);
        let kid0 = self.next_id + 1;
        self.begin();
        let b: &Bump<M> = &**self.bump;
        let r = catch_unwind(AssertUnwindSafe(|| -> Result<*mut T, Tracked> {
            let mut f = |i: usize| -> Result<T, Tracked> {
                order.push(i);
                if inner != 0 {
                    halloc::new_call_in_window();
                }
                if inner == 1 && kept.len() < 4 {
                    if let Ok(p) = b.try_alloc_layout(Layout::from_size_align(40, 8).unwrap()) {
                        let kid = kid0 + kept.len() as u32;
                        unsafe { fill(p.as_ptr(), &pat_bytes(kid, 40)) };
                        kept.push((p.as_ptr(), kid));
                    }
                } else if inner == 2 {
                    let l = Layout::from_size_align(24, 8).unwrap();
                    if let Ok(p) = b.allocate(l) {
                        unsafe { b.deallocate(p.cast(), l) };
                    }
                }
                if Some(i) == fail_at {
                    let t = Tracked::new(9);
                    err_id = Some(t.id);
                    Err(t)
                } else {
                    Ok(src[i])
                }
            };
            if iter {
                b.alloc_slice_try_fill_iter((0..len).map(&mut f)).map(|s| s.as_mut_ptr())
            } else {
                b.alloc_slice_try_fill_with(len, &mut f).map(|s| s.as_mut_ptr())
            }
        }));
        let ev = self.end(rep, OpKind::Alloc);
        let new_chunk = ev.iter().any(|e| e.kind == EV_ALLOC && e.cand && e.res == RES_OK);
        let mut do_probe = false;
        let out = match r {
            Ok(Ok(p)) => {
                let good = order.len() == len && order.iter().enumerate().all(|(i, &x)| i == x);
                if !good {
                    rep.violate("C02", "C02/initialiser-call-order/slice_try_fill", format!("{:?}", &order[..order.len().min(12)]));
                }
                if fail_at.map(|f| f < len).unwrap_or(false) {
                    rep.violate("C11", "C11/error-swallowed/returned-ok", self.cur.clone());
                }
                self.register(rep, p as *mut u8, size, align, pat_bytes(id, size), Some((size, align)), "slice_try_fill");
                Outcome::Ok
            }
            Ok(Err(e)) => {
                let want = fail_at.unwrap_or(usize::MAX);
                let good = order.len() == want + 1 && order.iter().enumerate().all(|(i, &x)| i == x);
                if !good {
                    rep.violate("C02", "C02/initialiser-call-order/slice_try_fill-failed", format!("{:?}", &order[..order.len().min(12)]));
                }
                if Some(e.id) != err_id || !e.check() {
                    rep.violate("C11", "C11/error-value-not-the-one-produced", format!("{:?} vs {:?}", e.id, err_id));
                }
                let before = crate::ledger::drops_since(ledger_mark);
                if !before.is_empty() {
                    rep.violate("C11", "C11/error-dropped-inside-arena", format!("{:?}", before));
                }
                drop(e);
                if crate::ledger::drops_since(ledger_mark).len() != 1 {
                    rep.violate("C11", "C11/error-not-delivered-exactly-once", "slice".to_string());
                }
                rep.bump("c11.errors_delivered");
                rep.bump(if new_chunk { "c11.slice_rewind_new_chunk" } else { "c11.slice_rewind_same_chunk" });
                do_probe = probe;
                Outcome::Err
            }
            Err(_) => {
                if !order.is_empty() {
                    rep.violate("C11", "C11/initialiser-ran-although-reservation-failed/slice_try_fill", self.cur.clone());
                }
                self.on_alloc_failure(rep, false, true, size, align, cap_before, "slice_try_fill");
                Outcome::Panic
            }
        };
        if !kept.is_empty() {
            // the slice itself took id `id`; kept blocks carry kid0..
            let save = self.next_id.max(kid0 + kept.len() as u32);
            for (p, kid) in kept.iter() {
                self.next_id = *kid;
                if self.register(rep, *p, 40, 8, pat_bytes(*kid, 40), Some((40, 8)), "alloc_layout-inside-slice-initialiser").is_some() && out == Outcome::Err {
                    if let Some(l) = self.live.get_mut(&(*p as usize)) {
                        l.tag = 1;
                        rep.bump("c11.kept_blocks_tracked");
                    }
                }
            }
            self.next_id = save;
            do_probe = false; // the initialiser allocated: the reuse clause does not apply
        }
        if inner != 0 {
            // the reuse clause is stated only for initialisers that allocated nothing
            do_probe = false;
        }
        self.after_op(rep, OpKind::Alloc, &ev);
        self.tr(&[15, out as u64]);
        if do_probe && size > 0 {
            let l = Layout::from_size_align(size, align).unwrap();
            self.cur = format!("probe-same-layout-after-failed-slice-fill({},{}){}", size, align, if new_chunk { "/new-chunk" } else { "/same-chunk" });
            self.begin();
            let r = self.bump.try_alloc_layout(l);
            let ev2 = self.end(rep, OpKind::Alloc);
            let asked = ev2.iter().filter(|e| e.kind == EV_ALLOC && e.cand).count();
            if asked != 0 {
                rep.violate(
                    "C11",
                    format!("C11/reserved-space-not-reusable/slice_try_fill/{}", if new_chunk { "new-chunk" } else { "same-chunk" }),
                    format!("same layout ({},{}) needed {} global-allocator request(s)", size, align, asked),
                );
            }
            rep.bump("c11.reuse_probes");
            if r.is_err() && asked == 0 {
                rep.violate("C11", "C11/reserved-space-not-reusable/slice_try_fill/request-refused", format!("same layout ({},{}) was refused (limit {:?})", size, align, self.limit));
            }
            if let Ok(p) = r {
                let pid = self.next_id;
                if self.register(rep, p.as_ptr(), size, align, pat_bytes(pid, size), Some((size, align)), "probe").is_some() {
                    unsafe {
                        fill(p.as_ptr(), &pat_bytes(pid, size));
                    }
                }
            }
            self.after_op(rep, OpKind::Alloc, &ev2);
        }
        out
    }

    // ------------------------------------------------------------------------------------------
    // Allocator trait

    pub fn op_allocate(&mut self, rep: &mut Report, size: usize, align: usize, zeroed: bool) -> Outcome {
        self.cur = format!("Allocator::allocate{}({},{})", if zeroed { "_zeroed" } else { "" }, size, align);
        let layout = match Layout::from_size_align(size, align) {
            Ok(l) => l,
            Err(_) => return Outcome::Err,
        };
        let cap_before = self.bump.chunk_capacity();
        self.begin();
        let b: &Bump<M> = &**self.bump;
        let r = catch_unwind(AssertUnwindSafe(|| if zeroed { b.allocate_zeroed(layout) } else { b.allocate(layout) }));
        let ev = self.end(rep, OpKind::Alloc);
        let out = match r {
            Ok(Ok(p)) => {
                let len = p.len();
                if len < size {
                    rep.violate("C12", "C12/allocate/returned-slice-shorter-than-layout", format!("{} < {}", len, size));
                }
                // the caller may use every byte of the slice it was given, not only layout.size()
                let usable = len.max(size).min(size + (1 << 20));
                let ptr = p.cast::<u8>().as_ptr();
                let id = self.next_id;
                if zeroed {
                    let nz = unsafe { (0..size).find(|&i| ptr.add(i).read() != 0) };
                    if let Some(i) = nz {
                        rep.violate("C12", "C12/allocate_zeroed/non-zero-byte", format!("byte {}", i));
                    }
                }
                if self.register(rep, ptr, usable, align, pat_bytes(id, usable), Some((size, align)), "allocate").is_some() {
                    unsafe {
                        fill(ptr, &pat_bytes(id, usable));
                    }
                }
                Outcome::Ok
            }
            Ok(Err(_)) => {
                self.on_alloc_failure(rep, true, false, size, align, cap_before, "allocate");
                Outcome::Err
            }
            Err(_) => {
                self.on_alloc_failure(rep, true, true, size, align, cap_before, "allocate");
                Outcome::Panic
            }
        };
        self.after_op(rep, OpKind::Alloc, &ev);
        self.tr(&[20, out as u64]);
        out
    }

    /// pick the n-th live block that carries a layout
    pub fn pick_layout_block(&mut self, prefer_last: bool) -> Option<usize> {
        // ordered by id, not by address, so that the choice does not depend on where the global
        // allocator happened to place the chunks (twin runs must make identical choices)
        let mut cands: Vec<(u32, usize)> = self.live.iter().filter(|(_, l)| l.layout.is_some()).map(|(a, l)| (l.id, *a)).collect();
        cands.sort();
        if cands.is_empty() {
            return None;
        }
        if prefer_last {
            // the most recent allocation is the one at the finger of the current chunk
            if let Some(o) = &self.last_obs {
                if let Some(&(finger, _)) = o.chunks.first() {
                    if self.live.get(&finger).map(|l| l.layout.is_some()).unwrap_or(false) {
                        return Some(finger);
                    }
                }
            }
        }
        Some(cands[self.rng.below(cands.len())].1)
    }

    /// deallocate a zero-sized block (must be a no-op for everybody else)
    pub fn op_deallocate_zst(&mut self, rep: &mut Report) {
        if self.zsts.is_empty() {
            return;
        }
        let i = self.rng.below(self.zsts.len());
        let (ptr, align, id) = self.zsts.swap_remove(i);
        self.cur = format!("Allocator::deallocate(id {},0,{})", id, align);
        let layout = Layout::from_size_align(0, align).unwrap();
        self.begin();
        let b: &Bump<M> = &**self.bump;
        let r = catch_unwind(AssertUnwindSafe(|| unsafe { b.deallocate(NonNull::new_unchecked(ptr), layout) }));
        let ev = self.end(rep, OpKind::Dealloc);
        if r.is_err() {
            let msg = last_panic();
            rep.violate("C12", format!("C12/deallocate-panicked/{}", normalise_msg(&msg)), msg);
        }
        rep.bump("c12.deallocate_zero_sized");
        self.after_op(rep, OpKind::Dealloc, &ev);
        self.check_live_blocks_still_reserved(rep, "deallocate");
        self.tr(&[23]);
    }

    pub fn op_deallocate(&mut self, rep: &mut Report, addr: usize) {
        let lv = match self.live.remove(&addr) {
            Some(l) => l,
            None => return,
        };
        let (size, align) = lv.layout.unwrap();
        self.cur = format!("Allocator::deallocate(id {},{},{})", lv.id, size, align);
        let layout = Layout::from_size_align(size, align).unwrap();
        self.begin();
        let b: &Bump<M> = &**self.bump;
        let r = catch_unwind(AssertUnwindSafe(|| unsafe { b.deallocate(NonNull::new_unchecked(lv.ptr), layout) }));
        let ev = self.end(rep, OpKind::Dealloc);
        if r.is_err() {
            let msg = last_panic();
            let p = if msg.contains("aligned") { "C04" } else { "C12" };
            rep.violate(p, format!("{}/deallocate-panicked/{}", p, normalise_msg(&msg)), msg);
        }
        rep.bump("c12.deallocate");
        self.after_op(rep, OpKind::Dealloc, &ev);
        self.check_live_blocks_still_reserved(rep, "deallocate");
        self.tr(&[21]);
    }

    /// grow / grow_zeroed / shrink of a live block
    pub fn op_realloc(&mut self, rep: &mut Report, addr: usize, new_size: usize, new_align: usize, zeroed: bool) -> Outcome {
        let lv = match self.live.remove(&addr) {
            Some(l) => l,
            None => return Outcome::Err,
        };
        self.realloc_inner(rep, lv, addr, new_size, new_align, zeroed)
    }

    /// grow / grow_zeroed / shrink / deallocate starting from a *zero-sized* block
    pub fn op_realloc_zst(&mut self, rep: &mut Report, new_size: usize, new_align: usize, zeroed: bool) -> Outcome {
        if self.zsts.is_empty() {
            return Outcome::Ok;
        }
        let i = self.rng.below(self.zsts.len());
        let (ptr, align, id) = self.zsts.swap_remove(i);
        rep.bump("c12.zero_sized_old_block");
        let lv = Live { id, ptr, size: 0, align, extent: 0, ext_off: 0, exp: Vec::new(), layout: Some((0, align)), tag: 0 };
        self.realloc_inner(rep, lv, ptr as usize, new_size, new_align, zeroed)
    }

    fn keep_block(&mut self, addr: usize, lv: Live) {
        if lv.size == 0 {
            if self.zsts.len() < 8 {
                self.zsts.push((lv.ptr, lv.align, lv.id));
            }
        } else {
            self.live.insert(addr, lv);
        }
    }

    fn realloc_inner(&mut self, rep: &mut Report, lv: Live, addr: usize, new_size: usize, new_align: usize, zeroed: bool) -> Outcome {
        let (old_size, old_align) = lv.layout.unwrap();
        // equal sizes are legal for both grow and shrink: exercise both
        let grow = new_size > old_size || (new_size == old_size && self.rng.chance(1, 2));
        let name = if grow { if zeroed { "grow_zeroed" } else { "grow" } } else { "shrink" };
        self.cur = format!("Allocator::{}(id {},({},{})->({},{}))", name, lv.id, old_size, old_align, new_size, new_align);
        let old_l = Layout::from_size_align(old_size, old_align).unwrap();
        let new_l = match Layout::from_size_align(new_size, new_align) {
            Ok(l) => l,
            Err(_) => {
                self.keep_block(addr, lv);
                return Outcome::Err;
            }
        };
        let was_last = self.last_obs.as_ref().and_then(|o| o.chunks.first().map(|c| c.0 == addr)).unwrap_or(false);
        let cap_before = self.bump.chunk_capacity();
        self.begin();
        let b: &Bump<M> = &**self.bump;
        let r = catch_unwind(AssertUnwindSafe(|| unsafe {
            let p = NonNull::new_unchecked(lv.ptr);
            if grow {
                if zeroed {
                    b.grow_zeroed(p, old_l, new_l)
                } else {
                    b.grow(p, old_l, new_l)
                }
            } else {
                b.shrink(p, old_l, new_l)
            }
        }));
        let ev = self.end(rep, if grow { OpKind::Grow } else { OpKind::Shrink });
        let out = match r {
            Ok(Ok(p)) => {
                if p.len() < new_size {
                    rep.violate("C12", format!("C12/{}/returned-slice-shorter-than-layout", name), format!("{} < {}", p.len(), new_size));
                }
                let ptr = p.cast::<u8>().as_ptr();
                let keep = old_size.min(new_size);
                let mut exp = lv.exp.clone();
                exp.truncate(keep);
                // prefix preserved? (checked here so the witness names the op; verify_all would also see it)
                let mut prefix_ok = true;
                let inheld = {
                    let a = ptr as usize;
                    self.chunks.iter().any(|c| c.base <= a && a + new_size <= c.base + c.size - self.k)
                };
                if inheld {
                    unsafe {
                        for i in 0..keep {
                            if ptr.add(i).read() != exp[i] {
                                prefix_ok = false;
                                rep.violate("C12", format!("C12/{}/prefix-not-preserved{}", name, if ptr as usize == addr { "/in-place" } else if was_last { "/moved-last" } else { "/moved" }), format!("byte {} of {} ({})", i, keep, self.cur));
                                break;
                            }
                        }
                        if zeroed && prefix_ok {
                            for i in old_size..new_size {
                                if ptr.add(i).read() != 0 {
                                    rep.violate("C12", "C12/grow_zeroed/tail-not-zero", format!("byte {} ({})", i, self.cur));
                                    break;
                                }
                            }
                        }
                    }
                }
                let id = self.next_id;
                // the caller owns every byte of the returned slice
                let usable = p.len().max(new_size).min(new_size + (1 << 20));
                if usable > new_size {
                    let a = ptr as usize;
                    let held = self.chunks.iter().any(|c| c.base <= a && a + usable <= c.base + c.size - self.k);
                    if !held {
                        rep.violate("C12", format!("C12/{}/returned-slice-longer-than-memory-reserved-for-it", name), format!("returned {} bytes for a {}-byte layout at {:#x} ({})", p.len(), new_size, a, self.cur));
                    }
                }
                // new content: kept prefix, pattern of the new id for the tail
                let mut newexp = exp;
                for i in keep..usable {
                    newexp.push(pat(id, i));
                }
                if !prefix_ok && inheld {
                    // resynchronise so that one defect is reported once
                    unsafe {
                        for i in 0..keep {
                            newexp[i] = ptr.add(i).read();
                        }
                    }
                }
                if self.register(rep, ptr, usable, new_align, newexp, Some((new_size, new_align)), name).is_some() {
                    unsafe {
                        for i in keep..usable {
                            ptr.add(i).write(pat(id, i));
                        }
                    }
                }
                rep.bump(&format!("c12.{}.{}", name, if ptr as usize == addr { "same_ptr" } else { "moved" }));
                Outcome::Ok
            }
            Ok(Err(_)) => {
                // the old block is untouched and still owned by the caller
                self.keep_block(addr, lv);
                rep.bump(&format!("c12.{}.err", name));
                if let Some(before) = self.last_obs.take() {
                    self.check_unchanged_after_failure(rep, &before, name);
                    self.last_obs = Some(before);
                }
                if grow && new_align <= M && new_align <= old_align && round_up(new_size, M) <= cap_before {
                    let p = if self.limit.is_some() { "C07" } else { "C09" };
                    rep.violate(p, format!("{}/fitting-request-failed/{}", p, name), self.cur.clone());
                } else if !grow && (addr % new_align == 0) && new_size <= old_size {
                    // a shrink of a block that already satisfies the new alignment needs no memory at all
                    let p = if self.limit.is_some() { "C07" } else { "C09" };
                    rep.violate(p, format!("{}/fitting-request-failed/{}/block-already-fits-the-new-layout", p, name), format!("{} (block at {:#x})", self.cur, addr));
                } else if grow && was_last && new_align <= old_align && round_up(new_size, M) >= old_size && round_up(round_up(new_size, M) - old_size, old_align.max(M)) <= cap_before {
                    // the newest block can be extended into the room left in its chunk: that needs no new chunk
                    let p = if self.limit.is_some() { "C07" } else { "C09" };
                    rep.violate(p, format!("{}/fitting-request-failed/{}/extension-of-the-newest-block", p, name), format!("{} with {} bytes left in the chunk", self.cur, cap_before));
                }
                Outcome::Err
            }
            Err(_) => {
                let msg = last_panic();
                let p = if msg.contains("aligned") { "C04" } else { "C12" };
                rep.violate(p, format!("{}/{}-panicked/{}", p, name, normalise_msg(&msg)), format!("{} ({})", msg, self.cur));
                self.keep_block(addr, lv);
                Outcome::Panic
            }
        };
        self.after_op(rep, if grow { OpKind::Grow } else { OpKind::Shrink }, &ev);
        self.check_live_blocks_still_reserved(rep, name);
        self.tr(&[22, out as u64]);
        out
    }

    // ------------------------------------------------------------------------------------------

    pub fn op_reset(&mut self, rep: &mut Report, probe: bool) {
        self.cur = "reset".into();
        let before = self.observe();
        let had_memory = !self.chunks.is_empty();
        let newest = self.chunks.last().cloned();
        self.live.clear();
        self.zsts.clear();
        self.begin();
        let r = catch_unwind(AssertUnwindSafe(|| self.bump.reset()));
        let ev = self.end(rep, OpKind::Reset);
        if r.is_err() {
            let msg = last_panic();
            rep.violate("C06", format!("C06/reset-panicked/{}", normalise_msg(&msg)), msg);
        }
        if !had_memory {
            if !ev.is_empty() {
                rep.violate("C06", "C06/reset-of-memoryless-arena-called-global-allocator", format!("{} events", ev.len()));
            }
            rep.bump("c06.reset_memoryless");
        }
        self.saw_reset = true;
        self.after_op(rep, OpKind::Reset, &ev);
        let obs = self.observe();
        if !had_memory {
            if obs.cap != before.cap || obs.ab != before.ab || obs.abim != before.abim || !obs.chunks.is_empty() {
                rep.violate("C06", "C06/reset-of-memoryless-arena-not-a-noop", String::new());
            }
        } else {
            // reset keeps exactly the newest chunk (C03: "all chunks except the one kept")
            match (self.chunks.len(), newest.as_ref()) {
                (0, _) => {
                    rep.violate("C03", "C03/reset/returned-the-chunk-it-should-keep", format!("the arena held memory before reset and holds none after it ({} blocks returned, limit {:?})", self.released, self.limit));
                    rep.violate("C06", "C06/reset-kept-no-block", format!("limit {:?}", self.limit));
                }
                (1, Some(n)) if self.chunks[0].base != n.base => {
                    rep.violate("C06", "C06/reset-kept-an-older-chunk-instead-of-the-newest", format!("kept {:#x} (size {}), newest was {:#x} (size {})", self.chunks[0].base, self.chunks[0].size, n.base, n.size));
                }
                _ => {}
            }
            if self.chunks.len() > 1 {
                rep.violate("C06", "C06/holds-more-than-one-block-after-reset", format!("{}", self.chunks.len()));
                rep.violate("C03", "C03/reset/did-not-return-all-chunks-but-one", format!("{} blocks still held after reset ({} returned by it)", self.chunks.len(), self.released));
            }
            if obs.chunks.len() > 1 {
                rep.violate("C06", "C06/iter-yields-more-than-one-chunk-after-reset", format!("{}", obs.chunks.len()));
            }
            if obs.chunks.iter().any(|c| c.1 != 0) {
                rep.violate("C06", "C06/iter-shows-allocated-bytes-after-reset", format!("{:?}", obs.chunks.iter().map(|c| c.1).collect::<Vec<_>>()));
            }
            if let (Some(c), Some(n)) = (self.chunks.last(), newest.as_ref()) {
                if c.base != n.base {
                    rep.violate("C06", "C06/kept-block-is-not-the-current-chunk", String::new());
                }
                if obs.cap != c.size - self.k {
                    rep.violate("C06", "C06/capacity-after-reset-not-full-chunk", format!("cap {} usable {}", obs.cap, c.size - self.k));
                }
            }
            rep.bump("c06.reset_with_memory");
        }
        self.tr(&[30]);
        if probe && had_memory && self.chunks.len() == 1 {
            // refill the whole chunk without a single global-allocator call, then reset again
            let usable = self.chunks[0].size - self.k;
            let want = usable & !(M - 1);
            self.cur = format!("reset-refill-probe({})", want);
            self.begin();
            let r = self.bump.try_alloc_layout(Layout::from_size_align(want, 1).unwrap());
            let ev2 = self.end(rep, OpKind::Probe);
            let asked = ev2.iter().filter(|e| e.kind == EV_ALLOC && e.cand).count();
            match r {
                Ok(p) => {
                    if asked != 0 {
                        rep.violate("C06", "C06/refill-after-reset-needed-global-allocator", format!("{} bytes, {} requests", want, asked));
                    }
                    let id = self.next_id;
                    // touch first and last byte only (big blocks)
                    let exp = pat_bytes(id, want);
                    if self.register(rep, p.as_ptr(), want, 1, exp, Some((want, 1)), "refill-probe").is_some() {
                        unsafe {
                            fill(p.as_ptr(), &pat_bytes(id, want));
                        }
                    }
                }
                Err(_) => {
                    rep.violate("C06", "C06/refill-after-reset-failed", format!("{} bytes", want));
                }
            }
            self.after_op(rep, OpKind::Probe, &ev2);
            rep.bump("c06.refill_probes");
            self.op_reset(rep, false);
            // "keeps its allocation limit": the limit is still *enforced* after the reset.  A request
            // that cannot fit in the kept chunk needs a new chunk at least as large as the request;
            // if held + request > limit it must be refused.
            if let (Some(l), 1) = (self.limit, self.chunks.len()) {
                // the smallest request that cannot be granted: it misses the kept chunk and
                // held + request exceeds the limit by one byte
                let r = if l >= usable { (usable + 16).max((l - usable).saturating_add(1)) } else { usable + 16 };
                if r < (8 << 20) && usable + r > l {
                    self.cur = format!("limit-still-enforced-after-reset-probe({} under limit {})", r, l);
                    let before = self.chunks.len();
                    self.begin();
                    let res = self.bump.try_alloc_layout(Layout::from_size_align(r, 1).unwrap());
                    let ev3 = self.end(rep, OpKind::Probe);
                    if res.is_ok() || self.chunks.len() > before {
                        rep.violate("C06", "C06/limit-not-enforced-after-reset", format!("held {} limit {} request {} succeeded", usable, l, r));
                    }
                    if let Ok(p) = res {
                        let id = self.next_id;
                        let exp = pat_bytes(id, r);
                        if self.register(rep, p.as_ptr(), r, 1, exp.clone(), Some((r, 1)), "limit-probe").is_some() {
                            unsafe { fill(p.as_ptr(), &exp) };
                        }
                    }
                    self.after_op(rep, OpKind::Probe, &ev3);
                    rep.bump("c06.limit_enforcement_probes");
                }
            }
        }
    }

    pub fn op_set_limit(&mut self, rep: &mut Report, l: Option<usize>) {
        // twin runs for the "as if the feature did not exist" clause of C07
        let l = match self.limit_mode {
            1 => l.map(|_| usize::MAX),
            2 => return,
            _ => l,
        };
        self.cur = format!("set_allocation_limit({:?})", l);
        self.begin();
        self.bump.set_allocation_limit(l);
        let ev = self.end(rep, OpKind::Limit);
        self.limit = l;
        if l.is_some() {
            self.saw_limit = true;
        }
        let t = self.trace_on;
        if self.limit_mode != 0 {
            self.trace_on = false;
        }
        self.after_op(rep, OpKind::Limit, &ev);
        self.trace_on = t;
    }

    /// iter_allocated_chunks (safe) against iter_allocated_chunks_raw
    pub fn op_iter(&mut self, rep: &mut Report) {
        self.cur = "iter_allocated_chunks".into();
        let raw: Vec<(usize, usize)> = unsafe { self.bump.iter_allocated_chunks_raw().map(|(p, l)| (p as usize, l)).collect() };
        self.begin();
        let safe: Vec<(usize, usize)> = self.bump.iter_allocated_chunks().map(|s| (s.as_ptr() as usize, s.len())).collect();
        let ev = self.end(rep, OpKind::Iter);
        if raw != safe {
            rep.violate("C10", "C10/iter/safe-and-raw-disagree", format!("raw {:?} safe {:?}", raw.len(), safe.len()));
        }
        // fused + second pass identical
        let again: Vec<(usize, usize)> = self.bump.iter_allocated_chunks().map(|s| (s.as_ptr() as usize, s.len())).collect();
        if again != safe {
            rep.violate("C10", "C10/iter/not-repeatable", String::new());
        }
        rep.bump("c10.iter_compared");
        self.after_op(rep, OpKind::Iter, &ev);
        self.tr(&[32, raw.len() as u64]);
    }

    /// harness write through the caller's own pointer
    pub fn op_scribble_block(&mut self, _rep: &mut Report) {
        if self.live.is_empty() {
            return;
        }
        let n = self.rng.below(self.live.len());
        let salt = self.rng.next() as u32;
        let mut ids: Vec<(u32, usize)> = self.live.iter().map(|(a, l)| (l.id, *a)).collect();
        ids.sort();
        let key = ids[n].1;
        if let Some(lv) = self.live.get_mut(&key) {
            lv.exp = pat_bytes(lv.id ^ salt, lv.size);
            unsafe { fill(lv.ptr, &lv.exp) };
        }
    }

    /// Requests whose total size is unrepresentable or far above anything the (capped) global
    /// allocator will honour.  Ok is only acceptable if the claimed extent is really held.
    pub fn op_huge(&mut self, rep: &mut Report, which: u8, n: usize, fallible: bool) -> Outcome {
        let name = ["alloc_layout", "slice_fill_with<u64>", "slice_fill_copy<u8>", "slice_fill_default<[u8;3]>", "slice_fill_clone<u32>", "slice_copy<()>", "with_capacity", "slice_fill_iter<u64>", "slice_try_fill_with<u64>", "slice_try_fill_iter<u64>"][which as usize % 10];
        // alloc_slice_try_fill_{with,iter} exist only in the infallible family (they panic on exhaustion)
        let fallible = fallible && which % 10 < 8;
        self.cur = format!("huge:{}{}(n={:#x})", if fallible { "try_" } else { "" }, name, n);
        if which % 10 == 6 {
            let ok = self.reconstruct(rep, Some(n), fallible);
            if ok && n > (64 << 20) && self.bump.chunk_capacity() < n {
                rep.violate("C19", "C19/constructor-accepted-impossible-capacity", format!("capacity {:#x} got {}", n, self.bump.chunk_capacity()));
            }
            return if ok { Outcome::Ok } else if fallible { Outcome::Err } else { Outcome::Panic };
        }
        if which % 10 == 0 && Layout::from_size_align(n, 8).is_err() {
            // not a request at all: Layout itself refuses the size
            return Outcome::Err;
        }
        let cap_before = self.bump.chunk_capacity();
        let before = self.observe();
        self.begin();
        let b: &Bump<M> = &**self.bump;
        // returns (ptr, claimed bytes, elem align)
        let r = catch_unwind(AssertUnwindSafe(|| -> Option<(usize, usize, usize)> {
            match (which % 10, fallible) {
                (0, f) => {
                    let l = Layout::from_size_align(n, 8).ok()?;
                    if f {
                        b.try_alloc_layout(l).ok().map(|p| (p.as_ptr() as usize, n, 8))
                    } else {
                        Some((b.alloc_layout(l).as_ptr() as usize, n, 8))
                    }
                }
                (1, false) => Some((b.alloc_slice_fill_with(n, |i| i as u64).as_ptr() as usize, n.wrapping_mul(8), 8)),
                (1, true) => b.try_alloc_slice_fill_with(n, |i| i as u64).ok().map(|s| (s.as_ptr() as usize, s.len().wrapping_mul(8), 8)),
                (2, false) => Some((b.alloc_slice_fill_copy(n, 7u8).as_ptr() as usize, n, 1)),
                (2, true) => b.try_alloc_slice_fill_copy(n, 7u8).ok().map(|s| (s.as_ptr() as usize, s.len(), 1)),
                (3, false) => Some((b.alloc_slice_fill_default::<[u8; 3]>(n).as_ptr() as usize, n.wrapping_mul(3), 1)),
                (3, true) => b.try_alloc_slice_fill_default::<[u8; 3]>(n).ok().map(|s| (s.as_ptr() as usize, s.len().wrapping_mul(3), 1)),
                (4, false) => Some((b.alloc_slice_fill_clone(n, &5u32).as_ptr() as usize, n.wrapping_mul(4), 4)),
                (4, true) => b.try_alloc_slice_fill_clone(n, &5u32).ok().map(|s| (s.as_ptr() as usize, s.len().wrapping_mul(4), 4)),
                (5, f) => {
                    let src: &[()] = unsafe { std::slice::from_raw_parts(NonNull::<()>::dangling().as_ptr(), n) };
                    if f {
                        b.try_alloc_slice_copy(src).ok().map(|s| (s.as_ptr() as usize, if s.len() == n { 0 } else { usize::MAX }, 1))
                    } else {
                        let s = b.alloc_slice_copy(src);
                        Some((s.as_ptr() as usize, if s.len() == n { 0 } else { usize::MAX }, 1))
                    }
                }
                (7, false) => Some((b.alloc_slice_fill_iter((0..n).map(|i| i as u64)).as_ptr() as usize, n.wrapping_mul(8), 8)),
                (7, true) => b.try_alloc_slice_fill_iter((0..n).map(|i| i as u64)).ok().map(|s| (s.as_ptr() as usize, s.len().wrapping_mul(8), 8)),
                // the Result-returning fills exist only in the infallible family: both flavours call them
                (8, _) => b.alloc_slice_try_fill_with(n, |i| Ok::<u64, ()>(i as u64)).ok().map(|s| (s.as_ptr() as usize, s.len().wrapping_mul(8), 8)),
                (_, _) => b.alloc_slice_try_fill_iter((0..n).map(|i| Ok::<u64, ()>(i as u64))).ok().map(|s| (s.as_ptr() as usize, s.len().wrapping_mul(8), 8)),
            }
        }));
        let ev = self.end(rep, OpKind::Alloc);
        let elem = [1usize, 8, 1, 3, 4, 0, 1, 8, 8, 8][which as usize % 10];
        let true_size = (n as u128) * (elem as u128);
        let out = match r {
            Ok(Some((p, claimed, _al))) => {
                rep.bump("c19.huge_ok");
                if claimed == usize::MAX {
                    rep.violate("C19", format!("C19/zst-slice-length-changed/{}", name), self.cur.clone());
                } else if true_size > (64u128 << 20) || (claimed as u128) != true_size {
                    // cannot possibly have been reserved under the 64 MiB allocator cap
                    rep.violate("C19", format!("C19/impossible-size-accepted/{}", name), format!("true size {:#x} bytes, returned ptr {:#x} claiming {:#x} ({})", true_size, p, claimed, self.cur));
                    rep.violate("C01", format!("C01/outside-held-memory/huge:{}", name), format!("a request of {:#x} bytes was answered with {:#x}: no such block lies inside memory the arena holds ({})", true_size, p, self.cur));
                } else if claimed > 0 {
                    let held = self.chunks.iter().any(|c| c.base <= p && p + claimed <= c.base + c.size - self.k);
                    if !held {
                        rep.violate("C19", format!("C19/claimed-extent-not-held/{}", name), format!("[{:#x},+{:#x}) ({})", p, claimed, self.cur));
                        rep.violate("C01", format!("C01/outside-held-memory/huge:{}", name), format!("[{:#x},+{:#x}) ({})", p, claimed, self.cur));
                    } else {
                        // really reserved (below the cap): track it like any block
                        let id = self.next_id;
                        let exp = pat_bytes(id, claimed);
                        if self.register(rep, p as *mut u8, claimed, 1, exp.clone(), None, "huge").is_some() {
                            unsafe { fill(p as *mut u8, &exp) };
                        }
                    }
                }
                Outcome::Ok
            }
            Ok(None) => {
                rep.bump("c19.huge_err");
                if !fallible {
                    rep.violate("C19", "C19/harness-logic", "infallible returned None".to_string());
                }
                self.check_unchanged_after_failure(rep, &before, name);
                let _ = cap_before;
                Outcome::Err
            }
            Err(_) => {
                rep.bump("c19.huge_panic");
                let msg = last_panic();
                if fallible {
                    rep.violate("C09", format!("C09/try-method-panicked/huge:{}/{}", name, normalise_msg(&msg)), format!("{} ({})", msg, self.cur));
                    rep.violate("C19", format!("C19/fallible-method-panicked-instead-of-returning-an-error/huge:{}", name), format!("{} ({})", msg, self.cur));
                } else if classify_panic(&msg) == PanicClass::Other {
                    rep.violate("C19", format!("C19/unexpected-panic/huge:{}/{}", name, normalise_msg(&msg)), format!("{} ({})", msg, self.cur));
                }
                self.check_unchanged_after_failure(rep, &before, name);
                Outcome::Panic
            }
        };
        self.after_op(rep, OpKind::Alloc, &ev);
        self.tr(&[40, out as u64]);
        out
    }

    /// C09: when a request fails the arena holds exactly the memory it held before and a request
    /// that fitted before still fits (capacity not reduced).
    pub fn check_unchanged_after_failure(&mut self, rep: &mut Report, before: &Observed, what: &str) {
        let now = self.observe();
        // the global allocator's view: a call that failed has not obtained (or given back) any block
        if !self.poisoned && (self.acquired != 0 || self.released != 0) {
            rep.violate(
                "C09",
                format!("C09/failure-changed-held-memory/{}/seen-at-the-global-allocator", what),
                format!("the failed call obtained {} block(s) from the global allocator and returned {} ({})", self.acquired, self.released, self.cur),
            );
        }
        if now.chunks.len() != before.chunks.len() || now.abim != before.abim {
            rep.violate("C09", format!("C09/failure-changed-held-memory/{}", what), format!("chunks {} -> {}, abim {} -> {} ({})", before.chunks.len(), now.chunks.len(), before.abim, now.abim, self.cur));
        } else if now.cap < before.cap {
            rep.violate("C09", format!("C09/failure-consumed-capacity/{}", what), format!("capacity {} -> {} ({})", before.cap, now.cap, self.cur));
        } else if now.cap > before.cap {
            // room appeared out of nowhere: the failed call gave away memory of blocks that are still live
            rep.violate("C09", format!("C09/failure-released-live-memory/{}", what), format!("capacity {} -> {} although nothing was deallocated ({})", before.cap, now.cap, self.cur));
        }
        rep.bump("c09.failure_state_checks");
    }

    /// C12: an Allocator call on one block never gives away memory of the other live blocks: every
    /// live block of the current chunk must still lie at or above the bump finger.
    pub fn check_live_blocks_still_reserved(&mut self, rep: &mut Report, what: &str) {
        if self.poisoned {
            return;
        }
        let (finger, footer) = match self.last_obs.as_ref().and_then(|o| o.chunks.first().copied()) {
            Some((f, l)) => (f, f + l),
            None => return,
        };
        let base = match self.chunks.last() {
            Some(c) => c.base,
            None => return,
        };
        for (addr, lv) in self.live.range(base..footer) {
            if *addr < finger {
                rep.violate(
                    "C12",
                    format!("C12/{}/released-memory-of-another-live-block", what),
                    format!("after {} the bump finger is at {:#x} but live block id {} [{:#x},{:#x}) lies below it ({})", what, finger, lv.id, addr, addr + lv.size, self.cur),
                );
                break;
            }
        }
        rep.bump("c12.other_blocks_still_reserved_checks");
    }

    /// alloc_slice_fill_default / try_alloc_slice_fill_default (u64 or [u8; 24]: zero patterns)
    pub fn op_alloc_slice_default(&mut self, rep: &mut Report, len: usize, wide: bool, fallible: bool) -> Outcome {
        let (esz, align) = if wide { (24usize, 1usize) } else { (8, 8) };
        let size = esz * len;
        self.cur = format!("{}alloc_slice_fill_default<{}B>(len={})", if fallible { "try_" } else { "" }, esz, len);
        let cap_before = self.bump.chunk_capacity();
        self.begin();
        let b: &Bump<M> = &**self.bump;
        let r = catch_unwind(AssertUnwindSafe(|| -> Option<*mut u8> {
            match (wide, fallible) {
                (false, false) => Some(b.alloc_slice_fill_default::<u64>(len).as_mut_ptr() as *mut u8),
                (false, true) => b.try_alloc_slice_fill_default::<u64>(len).ok().map(|s| s.as_mut_ptr() as *mut u8),
                (true, false) => Some(b.alloc_slice_fill_default::<[u8; 24]>(len).as_mut_ptr() as *mut u8),
                (true, true) => b.try_alloc_slice_fill_default::<[u8; 24]>(len).ok().map(|s| s.as_mut_ptr() as *mut u8),
            }
        }));
        let ev = self.end(rep, OpKind::Alloc);
        let out = match r {
            Ok(Some(p)) => {
                self.register(rep, p, size, align, vec![0u8; size], Some((size, align)), "alloc_slice_fill_default");
                Outcome::Ok
            }
            Ok(None) => {
                self.on_alloc_failure(rep, fallible, false, size, align, cap_before, "alloc_slice_fill_default");
                Outcome::Err
            }
            Err(_) => {
                self.on_alloc_failure(rep, fallible, true, size, align, cap_before, "alloc_slice_fill_default");
                Outcome::Panic
            }
        };
        self.after_op(rep, OpKind::Alloc, &ev);
        self.tr(&[16, out as u64]);
        out
    }
}
