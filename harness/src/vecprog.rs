//! Differential executor: bumpalo::collections::Vec against std::vec::Vec (C13), with drop
//! accounting per op for tracked elements (C15).  Only what the properties state is compared:
//! outcome class (returns / panics), returned values, resulting contents and length, capacity
//! promises, and the *set* of elements dropped by each op (not the order, not panic messages, not
//! exact capacities).
#![allow(dead_code)]

use crate::arena::last_panic;
use crate::halloc;
use crate::ledger::{self, Tracked, TrackedZst};
use crate::report::Report;
use crate::rng::Rng;
use bumpalo::collections::Vec as BVec;
use bumpalo::Bump;
use std::fmt::Debug;
use std::ops::Bound;
use std::panic::{catch_unwind, AssertUnwindSafe};

pub trait El: Clone + PartialEq + Debug + 'static {
    const NAME: &'static str;
    const TRACKED: bool = false;
    const IS_U8: bool = false;
    fn mk(key: u32) -> Self;
    fn key(&self) -> u32;
    fn norm(key: u32) -> u32 {
        key
    }
    fn ext_copy<'b>(bv: &mut BVec<'b, Self>, items: &[Self]) {
        bv.extend_from_slice(items)
    }
    fn ext_slices_copy<'b>(bv: &mut BVec<'b, Self>, parts: &[&[Self]]) {
        for p in parts {
            bv.extend_from_slice(p)
        }
    }
    fn io_write<'b>(_bv: &mut BVec<'b, Self>, _sv: &mut Vec<Self>, _bytes: &[u8]) {}
    fn live_ok(&self) -> bool {
        true
    }
    /// is this bit pattern one the harness could have produced? (garbage read from memory the
    /// vector does not own is very unlikely to pass for the structured types)
    fn well_formed(&self) -> bool {
        self.live_ok()
    }
    fn id(&self) -> Option<u32> {
        None
    }
}

impl El for u8 {
    const NAME: &'static str = "u8";
    const IS_U8: bool = true;
    fn mk(key: u32) -> u8 {
        (key % 251) as u8
    }
    fn key(&self) -> u32 {
        *self as u32
    }
    fn norm(key: u32) -> u32 {
        key % 251
    }
    fn ext_copy<'b>(bv: &mut BVec<'b, u8>, items: &[u8]) {
        bv.extend_from_slice_copy(items)
    }
    fn ext_slices_copy<'b>(bv: &mut BVec<'b, u8>, parts: &[&[u8]]) {
        bv.extend_from_slices_copy(parts)
    }
    fn io_write<'b>(bv: &mut BVec<'b, u8>, sv: &mut Vec<u8>, bytes: &[u8]) {
        use std::io::Write;
        let a = bv.write(bytes).unwrap();
        let b = sv.write(bytes).unwrap();
        assert_eq!(a, b);
        bv.write_all(bytes).unwrap();
        sv.write_all(bytes).unwrap();
        bv.flush().unwrap();
    }
}
impl El for u64 {
    const NAME: &'static str = "u64";
    fn mk(key: u32) -> u64 {
        key as u64 | (key as u64) << 40
    }
    fn key(&self) -> u32 {
        *self as u32
    }
    fn well_formed(&self) -> bool {
        (*self >> 40) == (*self & 0xFF_FFFF) && (*self as u32) < (1 << 24)
    }
    fn ext_copy<'b>(bv: &mut BVec<'b, u64>, items: &[u64]) {
        bv.extend_from_slice_copy(items)
    }
    fn ext_slices_copy<'b>(bv: &mut BVec<'b, u64>, parts: &[&[u64]]) {
        bv.extend_from_slices_copy(parts)
    }
}
impl El for [u8; 24] {
    const NAME: &'static str = "[u8;24]";
    fn mk(key: u32) -> [u8; 24] {
        let mut a = [0u8; 24];
        a[..4].copy_from_slice(&key.to_le_bytes());
        a[20..].copy_from_slice(&key.to_le_bytes());
        a[10] = key as u8 ^ 0x5a;
        a
    }
    fn key(&self) -> u32 {
        let k = u32::from_le_bytes([self[0], self[1], self[2], self[3]]);
        let k2 = u32::from_le_bytes([self[20], self[21], self[22], self[23]]);
        if k == k2 && self[10] == (k as u8 ^ 0x5a) {
            k
        } else {
            0xDEAD_0000 | (self[0] as u32)
        }
    }
    fn well_formed(&self) -> bool {
        self.key() & 0xFFFF_0000 != 0xDEAD_0000
    }
    fn ext_copy<'b>(bv: &mut BVec<'b, [u8; 24]>, items: &[[u8; 24]]) {
        bv.extend_from_slice_copy(items)
    }
    fn ext_slices_copy<'b>(bv: &mut BVec<'b, [u8; 24]>, parts: &[&[[u8; 24]]]) {
        bv.extend_from_slices_copy(parts)
    }
}
impl El for () {
    const NAME: &'static str = "()";
    fn mk(_key: u32) {}
    fn key(&self) -> u32 {
        0
    }
    fn norm(_key: u32) -> u32 {
        0
    }
    fn ext_copy<'b>(bv: &mut BVec<'b, ()>, items: &[()]) {
        bv.extend_from_slice_copy(items)
    }
    fn ext_slices_copy<'b>(bv: &mut BVec<'b, ()>, parts: &[&[()]]) {
        bv.extend_from_slices_copy(parts)
    }
}
impl El for Tracked {
    const NAME: &'static str = "Tracked";
    const TRACKED: bool = true;
    fn mk(key: u32) -> Tracked {
        Tracked::new(key)
    }
    fn key(&self) -> u32 {
        self.key
    }
    fn live_ok(&self) -> bool {
        ledger::is_live(self.id) && self.check()
    }
    fn id(&self) -> Option<u32> {
        Some(self.id)
    }
}
impl El for TrackedZst {
    const NAME: &'static str = "TrackedZst";
    fn mk(_key: u32) -> TrackedZst {
        TrackedZst::new()
    }
    fn key(&self) -> u32 {
        0
    }
    fn norm(_key: u32) -> u32 {
        0
    }
}

pub type B = (u8, usize);
fn bound(b: B) -> Bound<usize> {
    match b.0 {
        0 => Bound::Unbounded,
        1 => Bound::Included(b.1),
        _ => Bound::Excluded(b.1),
    }
}

#[derive(Clone, Debug)]
pub enum VOp {
    Push(u32),
    Pop,
    Insert(usize, u32),
    Remove(usize),
    SwapRemove(usize),
    Truncate(usize),
    Clear,
    Resize(usize, u32),
    ExtendIter(Vec<u32>),
    ExtendFromSlice(Vec<u32>),
    ExtendCopy(Vec<u32>),
    ExtendSlicesCopy(Vec<Vec<u32>>),
    Append(Vec<u32>),
    SplitOff(usize, bool),
    Drain(B, B, usize, usize, bool),
    Splice(B, B, Vec<u32>, bool, usize),
    /// splice whose replacement iterator honestly announces a count that can never be reserved
    SpliceHuge(B, B, Vec<u32>),
    Retain(u32),
    /// retain whose predicate panics at its k-th call (std documents the state afterwards:
    /// unvisited elements are kept)
    RetainPanic(u32, usize),
    DrainFilter(u32, Option<usize>, bool),
    DedupByAsym(u32),
    Dedup,
    DedupBy(u32),
    DedupByKey(u32),
    Reserve(usize),
    ReserveExact(usize),
    TryReserve(usize),
    TryReserveExact(usize),
    ShrinkToFit,
    CloneSwap,
    /// `v.clone_from(&other)` with `other` built from the keys (shorter, equal or longer than `v`)
    CloneFrom(Vec<u32>),
    IntoIter(usize, usize, bool),
    /// into_iter consumed through nth / skip / step_by (skipped elements must still be dropped)
    IntoIterSkip(u8, usize),
    IntoBumpSlice(bool),
    IntoBoxedSlice,
    FromIterIn(Vec<u32>),
    CollectIn(Vec<u32>),
    /// collect Result/Option items, short-circuiting at index `stop` (if inside): mode 0 Result<Vec>, 1 Option<Vec>, 2 Result<Box<[T]>>, 3 Option<Box<[T]>>
    CollectInShort(Vec<u32>, usize, u8),
    MacroList(Vec<u32>),
    MacroRepeat(u32, usize),
    WithCapacity(usize),
    Index(usize),
    Get(usize),
    SetIndexMut(usize, u32),
    IoWrite(Vec<u8>),
    IterRev,
    Eq,
    /// Index / IndexMut with range forms (panic parity), iter_mut, Extend<&T>, comparisons, hash
    SliceIndex(u8, usize, usize),
    TraitOps(u8, Vec<u32>),
}

impl VOp {
    pub fn name(&self) -> &'static str {
        match self {
            VOp::Push(..) => "push",
            VOp::Pop => "pop",
            VOp::Insert(..) => "insert",
            VOp::Remove(..) => "remove",
            VOp::SwapRemove(..) => "swap_remove",
            VOp::Truncate(..) => "truncate",
            VOp::Clear => "clear",
            VOp::Resize(..) => "resize",
            VOp::ExtendIter(..) => "extend",
            VOp::ExtendFromSlice(..) => "extend_from_slice",
            VOp::ExtendCopy(..) => "extend_from_slice_copy",
            VOp::ExtendSlicesCopy(..) => "extend_from_slices_copy",
            VOp::Append(..) => "append",
            VOp::SplitOff(..) => "split_off",
            VOp::Drain(..) => "drain",
            VOp::Splice(..) => "splice",
            VOp::SpliceHuge(..) => "splice-unreservable-hint",
            VOp::Retain(..) => "retain",
            VOp::RetainPanic(..) => "retain-panicking-predicate",
            VOp::DrainFilter(_, _, false) => "drain_filter",
            VOp::DrainFilter(_, _, true) => "drain_filter-forget",
            VOp::DedupByAsym(..) => "dedup_by-asymmetric",
            VOp::Dedup => "dedup",
            VOp::DedupBy(..) => "dedup_by",
            VOp::DedupByKey(..) => "dedup_by_key",
            VOp::Reserve(..) => "reserve",
            VOp::ReserveExact(..) => "reserve_exact",
            VOp::TryReserve(..) => "try_reserve",
            VOp::TryReserveExact(..) => "try_reserve_exact",
            VOp::ShrinkToFit => "shrink_to_fit",
            VOp::CloneSwap => "clone",
            VOp::CloneFrom(..) => "clone_from",
            VOp::IntoIter(..) => "into_iter",
            VOp::IntoIterSkip(..) => "into_iter-nth-skip-step_by",
            VOp::IntoBumpSlice(..) => "into_bump_slice",
            VOp::IntoBoxedSlice => "into_boxed_slice",
            VOp::FromIterIn(..) => "from_iter_in",
            VOp::CollectIn(..) => "collect_in",
            VOp::CollectInShort(..) => "collect_in-result/option",
            VOp::MacroList(..) => "vec!-list",
            VOp::MacroRepeat(..) => "vec!-repeat",
            VOp::WithCapacity(..) => "with_capacity_in",
            VOp::Index(..) => "index",
            VOp::Get(..) => "get",
            VOp::SetIndexMut(..) => "index_mut",
            VOp::IoWrite(..) => "io::Write",
            VOp::IterRev => "iter-rev",
            VOp::Eq => "eq/hash/debug",
            VOp::SliceIndex(..) => "index-range",
            VOp::TraitOps(..) => "trait-impls",
        }
    }
}

#[derive(Clone, Debug, PartialEq)]
pub enum Res {
    Unit,
    Key(Option<u32>),
    Keys(Vec<u32>),
    Flag(bool),
}

/// an iterator with a configurable size hint (exact or (0, None))
struct KeysIter<T: El> {
    keys: std::vec::IntoIter<u32>,
    exact: bool,
    /// honest but loose upper bounds: 0 = as `exact` says, 1 = (0, Some(usize::MAX)), 2 = (len, Some(len + 2^40))
    loose: u8,
    _p: std::marker::PhantomData<T>,
}
impl<T: El> Iterator for KeysIter<T> {
    type Item = T;
    fn next(&mut self) -> Option<T> {
        ledger::fuse_point(ledger::F_ITER);
        self.keys.next().map(T::mk)
    }
    fn size_hint(&self) -> (usize, Option<usize>) {
        match self.loose {
            1 => (0, Some(usize::MAX)),
            2 => (self.keys.len(), Some(self.keys.len() + (1usize << 40))),
            _ => {
                if self.exact {
                    self.keys.size_hint()
                } else {
                    (0, None)
                }
            }
        }
    }
}
fn kiter<T: El>(keys: &[u32], exact: bool) -> KeysIter<T> {
    KeysIter { keys: keys.to_vec().into_iter(), exact, loose: 0, _p: std::marker::PhantomData }
}
/// like `kiter`, with the size-hint flavour chosen by `mode % 4` (exact, none, two loose upper bounds)
fn kiter_h<T: El>(keys: &[u32], mode: usize) -> KeysIter<T> {
    let mut k = kiter::<T>(keys, mode % 4 == 0);
    k.loose = match mode % 4 {
        2 => 1,
        3 => 2,
        _ => 0,
    };
    k
}


/// yields `keys`, then would go on for isize::MAX more items: no element size can be reserved, both sides must refuse by panicking without allocating (size_hint says so, honestly)
struct HugeIter<T: El> {
    keys: std::vec::IntoIter<u32>,
    rest: usize,
    _p: std::marker::PhantomData<T>,
}
impl<T: El> Iterator for HugeIter<T> {
    type Item = T;
    fn next(&mut self) -> Option<T> {
        match self.keys.next() {
            Some(k) => Some(T::mk(k)),
            None => {
                if self.rest > 0 {
                    self.rest -= 1;
                    Some(T::mk(1))
                } else {
                    None
                }
            }
        }
    }
    fn size_hint(&self) -> (usize, Option<usize>) {
        let n = self.keys.len() + self.rest;
        (n, Some(n))
    }
}
fn huge_iter<T: El>(keys: &[u32]) -> HugeIter<T> {
    HugeIter { keys: keys.to_vec().into_iter(), rest: (isize::MAX as usize) + 4096, _p: std::marker::PhantomData }
}

/// ownership of the boxed slice's elements and buffer moves into a vector of the same arena
fn box_to_vec<'b, T>(bx: bumpalo::boxed::Box<'b, [T]>, b: &'b Bump) -> BVec<'b, T> {
    let n = bx.len();
    let raw = bumpalo::boxed::Box::into_raw(bx) as *mut T;
    unsafe { BVec::from_raw_parts_in(raw, n, n, b) }
}

fn mkv<T: El>(keys: &[u32]) -> Vec<T> {
    keys.iter().map(|k| T::mk(*k)).collect()
}

pub fn keys_of<T: El>(s: &[T]) -> Vec<u32> {
    s.iter().map(|x| x.key()).collect()
}

/// apply `op` to the bumpalo vector.  `leaked`: ids intentionally leaked by leak-by-design ops.
/// what the bumpalo side keeps alive across later operations
pub struct Kept<'b, T: El> {
    /// leaked bump slices (into_bump_slice): contents must stay intact for the arena's lifetime
    pub slices: Vec<(*const T, usize, Vec<u32>)>,
    /// boxed slices (into_boxed_slice) held while later operations allocate; at most KEPT_BOXES, oldest dropped first
    pub boxes: Vec<(bumpalo::boxed::Box<'b, [T]>, Vec<u32>)>,
}
pub const KEPT_BOXES: usize = 3;

pub fn apply_b<'b, T: El>(b: &'b Bump, v: &mut BVec<'b, T>, op: &VOp, kept: &mut Kept<'b, T>) -> Res {
    match op {
        VOp::Push(k) => {
            v.push(T::mk(*k));
            Res::Unit
        }
        VOp::Pop => Res::Key(v.pop().map(|x| x.key())),
        VOp::Insert(i, k) => {
            let x = T::mk(*k);
            v.insert(*i, x);
            Res::Unit
        }
        VOp::Remove(i) => Res::Key(Some(v.remove(*i).key())),
        VOp::SwapRemove(i) => Res::Key(Some(v.swap_remove(*i).key())),
        VOp::Truncate(n) => {
            v.truncate(*n);
            Res::Unit
        }
        VOp::Clear => {
            v.clear();
            Res::Unit
        }
        VOp::Resize(n, k) => {
            let x = T::mk(*k);
            v.resize(*n, x);
            Res::Unit
        }
        VOp::ExtendIter(ks) => {
            v.extend(kiter_h::<T>(ks, ks.len() + ks.first().copied().unwrap_or(0) as usize));
            Res::Unit
        }
        VOp::ExtendFromSlice(ks) => {
            let items = mkv::<T>(ks);
            v.extend_from_slice(&items);
            Res::Unit
        }
        VOp::ExtendCopy(ks) => {
            let items = mkv::<T>(ks);
            T::ext_copy(v, &items);
            Res::Unit
        }
        VOp::ExtendSlicesCopy(parts) => {
            let owned: Vec<Vec<T>> = parts.iter().map(|p| mkv::<T>(p)).collect();
            let refs: Vec<&[T]> = owned.iter().map(|p| p.as_slice()).collect();
            T::ext_slices_copy(v, &refs);
            Res::Unit
        }
        VOp::Append(ks) => {
            let mut other: BVec<'b, T> = BVec::from_iter_in(kiter::<T>(ks, true), b);
            v.append(&mut other);
            Res::Flag(other.is_empty())
        }
        VOp::SplitOff(at, keep_tail) => {
            let tail = v.split_off(*at);
            let r = Res::Keys(keys_of(&tail));
            if *keep_tail {
                let head = std::mem::replace(v, tail);
                drop(head);
            }
            r
        }
        VOp::Drain(lo, hi, front, back, forget) => {
            let mut d = v.drain((bound(*lo), bound(*hi)));
            let mut out = Vec::new();
            for _ in 0..*front {
                if let Some(x) = d.next() {
                    out.push(x.key());
                }
            }
            for _ in 0..*back {
                if let Some(x) = d.next_back() {
                    out.push(x.key());
                }
            }
            out.push(d.len() as u32 | 0x8000_0000);
            if *forget {
                std::mem::forget(d);
            } else {
                drop(d);
            }
            Res::Keys(out)
        }
        VOp::Splice(lo, hi, ks, exact, take) => {
            let mut s = v.splice((bound(*lo), bound(*hi)), kiter::<T>(ks, *exact));
            let mut out = Vec::new();
            for _ in 0..*take {
                if let Some(x) = s.next() {
                    out.push(x.key());
                }
            }
            drop(s);
            Res::Keys(out)
        }
        VOp::SpliceHuge(lo, hi, ks) => {
            let s = v.splice((bound(*lo), bound(*hi)), huge_iter::<T>(ks));
            drop(s);
            Res::Unit
        }
        VOp::RetainPanic(m, k) => {
            let m = *m;
            let k = *k;
            let mut calls = 0usize;
            v.retain(|x| {
                calls += 1;
                if calls == k {
                    std::panic::panic_any(ledger::FusePanic);
                }
                x.key() % m != 0
            });
            Res::Unit
        }
        VOp::Retain(m) => {
            let m = *m;
            let mut seen = Vec::new();
            v.retain(|x| {
                ledger::fuse_point(ledger::F_CALLBACK);
                seen.push(x.key());
                x.key() % m != 0
            });
            Res::Keys(seen)
        }
        VOp::DrainFilter(m, take, forget) => {
            let m = *m;
            let mut out = Vec::new();
            {
                let mut df = v.drain_filter(|x| {
                    ledger::fuse_point(ledger::F_CALLBACK);
                    x.key() % m == 0
                });
                match take {
                    Some(n) => {
                        for _ in 0..*n {
                            if let Some(x) = df.next() {
                                out.push(x.key());
                            }
                        }
                    }
                    None => {
                        for x in df.by_ref() {
                            out.push(x.key());
                        }
                    }
                }
                if *forget {
                    // a leaked DrainFilter: the vector must not expose moved-out or stale elements
                    std::mem::forget(df);
                }
            }
            Res::Keys(out)
        }
        VOp::DedupByAsym(m) => {
            let m = *m;
            // asymmetric in its arguments: `a` is the later element (the one that would be removed)
            v.dedup_by(|a, b| a.key() % m == 0 && b.key() % m != 0);
            Res::Unit
        }
        VOp::Dedup => {
            v.dedup();
            Res::Unit
        }
        VOp::DedupBy(m) => {
            let m = *m;
            v.dedup_by(|a, b| {
                ledger::fuse_point(ledger::F_CALLBACK);
                a.key() % m == b.key() % m
            });
            Res::Unit
        }
        VOp::DedupByKey(m) => {
            let m = *m;
            v.dedup_by_key(|a| {
                ledger::fuse_point(ledger::F_CALLBACK);
                a.key() % m
            });
            Res::Unit
        }
        VOp::Reserve(n) => {
            v.reserve(*n);
            Res::Flag(v.len().checked_add(*n).map_or(false, |w| v.capacity() >= w))
        }
        VOp::ReserveExact(n) => {
            v.reserve_exact(*n);
            Res::Flag(v.len().checked_add(*n).map_or(false, |w| v.capacity() >= w))
        }
        VOp::TryReserve(n) => {
            let r = v.try_reserve(*n).is_ok();
            Res::Flag(r && v.len().checked_add(*n).map_or(false, |w| v.capacity() >= w))
        }
        VOp::TryReserveExact(n) => {
            let r = v.try_reserve_exact(*n).is_ok();
            Res::Flag(r && v.len().checked_add(*n).map_or(false, |w| v.capacity() >= w))
        }
        VOp::ShrinkToFit => {
            v.shrink_to_fit();
            Res::Unit
        }
        VOp::CloneSwap => {
            let c = v.clone();
            let old = std::mem::replace(v, c);
            drop(old);
            Res::Unit
        }
        VOp::CloneFrom(ks) => {
            let other: BVec<'b, T> = BVec::from_iter_in(kiter::<T>(ks, true), b);
            v.clone_from(&other);
            Res::Keys(keys_of(&other))
        }
        VOp::IntoIter(front, back, keep) => {
            let old = std::mem::replace(v, BVec::new_in(b));
            let mut it = old.into_iter();
            let mut out = Vec::new();
            for _ in 0..*front {
                if let Some(x) = it.next() {
                    out.push(x.key());
                }
            }
            for _ in 0..*back {
                if let Some(x) = it.next_back() {
                    out.push(x.key());
                }
            }
            out.push(it.len() as u32 | 0x8000_0000);
            out.extend(it.as_slice().iter().map(|x| x.key()));
            if *keep {
                *v = BVec::from_iter_in(it, b);
            } else {
                drop(it);
            }
            Res::Keys(out)
        }
        VOp::IntoIterSkip(how, n) => {
            let old = std::mem::replace(v, BVec::new_in(b));
            let mut it = old.into_iter();
            let out: Vec<u32> = match how {
                0 => {
                    let a = it.nth(*n).map(|x| x.key());
                    let mut o: Vec<u32> = a.into_iter().collect();
                    o.push(it.len() as u32 | 0x8000_0000);
                    o.extend(it.map(|x| x.key()));
                    o
                }
                1 => it.skip(*n).map(|x| x.key()).collect(),
                2 => it.step_by(*n + 1).map(|x| x.key()).collect(),
                _ => {
                    let a = it.nth_back(*n).map(|x| x.key());
                    let mut o: Vec<u32> = a.into_iter().collect();
                    o.extend(it.rev().map(|x| x.key()));
                    o
                }
            };
            Res::Keys(out)
        }
        VOp::IntoBumpSlice(m) => {
            let old = std::mem::replace(v, BVec::new_in(b));
            let ks = keys_of(&old);
            let (p, n) = if *m {
                let s = old.into_bump_slice_mut();
                (s.as_ptr(), s.len())
            } else {
                let s = old.into_bump_slice();
                (s.as_ptr(), s.len())
            };
            kept.slices.push((p, n, ks.clone()));
            Res::Keys(ks)
        }
        VOp::IntoBoxedSlice => {
            let old = std::mem::replace(v, BVec::new_in(b));
            let bx = old.into_boxed_slice();
            let ks = keys_of(&bx);
            kept.boxes.push((bx, ks.clone()));
            if kept.boxes.len() > KEPT_BOXES {
                drop(kept.boxes.remove(0));
            }
            Res::Keys(ks)
        }
        VOp::FromIterIn(ks) => {
            let n = BVec::from_iter_in(kiter_h::<T>(ks, ks.len() + 1 + ks.first().copied().unwrap_or(0) as usize), b);
            let old = std::mem::replace(v, n);
            drop(old);
            Res::Unit
        }
        VOp::CollectIn(ks) => {
            use bumpalo::collections::CollectIn;
            let n: BVec<'b, T> = kiter_h::<T>(ks, ks.len() + 2 + ks.first().copied().unwrap_or(0) as usize).collect_in(b);
            let old = std::mem::replace(v, n);
            drop(old);
            Res::Unit
        }
        VOp::CollectInShort(ks, stop, mode) => {
            use bumpalo::collections::CollectIn;
            // items at `stop` and at a second, later index are errors (with different payloads); the source
            // counts how many items were pulled out of it: collecting stops at the FIRST error
            let stop = *stop;
            let stop2 = stop + 1 + stop % 3;
            let pulled = std::cell::Cell::new(0u32);
            let items = kiter::<T>(ks, ks.len() % 2 == 0).enumerate().inspect(|_| pulled.set(pulled.get() + 1));
            let bad = |i: usize| i == stop || i == stop2;
            let got: Result<BVec<'b, T>, u32> = match mode {
                0 => items.map(|(i, x)| if bad(i) { Err(x.key() + 1000 * i as u32) } else { Ok(x) }).collect_in::<Result<BVec<'b, T>, u32>>(b),
                1 => items.map(|(i, x)| if bad(i) { None } else { Some(x) }).collect_in::<Option<BVec<'b, T>>>(b).ok_or(0),
                2 => items
                    .map(|(i, x)| if bad(i) { Err(x.key() + 1000 * i as u32) } else { Ok(x) })
                    .collect_in::<Result<bumpalo::boxed::Box<'b, [T]>, u32>>(b)
                    .map(|bx| box_to_vec(bx, b)),
                _ => items
                    .map(|(i, x)| if bad(i) { None } else { Some(x) })
                    .collect_in::<Option<bumpalo::boxed::Box<'b, [T]>>>(b)
                    .map(|bx| box_to_vec(bx, b))
                    .ok_or(0),
            };
            match got {
                Ok(n) => {
                    let old = std::mem::replace(v, n);
                    drop(old);
                    Res::Keys(vec![u32::MAX, pulled.get()])
                }
                Err(e) => Res::Keys(vec![e, pulled.get()]),
            }
        }
        VOp::MacroList(ks) => {
            let n: BVec<'b, T> = match ks.len() {
                0 => bumpalo::vec![in b],
                1 => bumpalo::vec![in b; T::mk(ks[0])],
                2 => bumpalo::vec![in b; T::mk(ks[0]), T::mk(ks[1])],
                _ => bumpalo::vec![in b; T::mk(ks[0]), T::mk(ks[1]), T::mk(ks[2])],
            };
            let old = std::mem::replace(v, n);
            drop(old);
            Res::Unit
        }
        VOp::MacroRepeat(k, n) => {
            // evaluate the element first: whether `vec![in b; e; 0]` evaluates `e` at all is not part of C13/C15
            let e = T::mk(*k);
            let nv: BVec<'b, T> = bumpalo::vec![in b; e; *n];
            let old = std::mem::replace(v, nv);
            drop(old);
            Res::Unit
        }
        VOp::WithCapacity(n) => {
            let nv: BVec<'b, T> = BVec::with_capacity_in(*n, b);
            let ok = nv.capacity() >= *n;
            let old = std::mem::replace(v, nv);
            drop(old);
            Res::Flag(ok)
        }
        VOp::Index(i) => Res::Key(Some(v[*i].key())),
        VOp::Get(i) => Res::Key(v.get(*i).map(|x| x.key())),
        VOp::SetIndexMut(i, k) => {
            v[*i] = T::mk(*k);
            Res::Unit
        }
        VOp::IoWrite(_) => Res::Unit,
        VOp::SliceIndex(form, a, c) => {
            let (a, c) = (*a, *c);
            let t: &[T] = match form {
                0 => &v[a..c],
                1 => &v[..c],
                2 => &v[a..],
                3 => &v[..],
                4 => &v[a..=c],
                _ => &v[..=c],
            };
            let out = keys_of(t);
            let m: &mut [T] = match form {
                0 => &mut v[a..c],
                1 => &mut v[..c],
                2 => &mut v[a..],
                3 => &mut v[..],
                4 => &mut v[a..=c],
                _ => &mut v[..=c],
            };
            m.reverse();
            Res::Keys(out)
        }
        VOp::TraitOps(which, ks) => {
            use std::hash::{Hash, Hasher};
            match which {
                0 => {
                    for x in v.iter_mut() {
                        if x.key() % 2 == 0 {
                            *x = T::mk(x.key() + 1);
                        }
                    }
                    Res::Unit
                }
                1 => {
                    let mut out = Vec::new();
                    for x in &*v {
                        out.push(x.key());
                    }
                    for x in &mut *v {
                        out.push(x.key() ^ 1);
                    }
                    Res::Keys(out)
                }
                2 => {
                    let other: BVec<'b, T> = BVec::from_iter_in(kiter::<T>(ks, true), b);
                    let e = [*v == other, v.as_slice() == other.as_slice(), *v == other.as_slice()];
                    Res::Keys(e.iter().map(|x| *x as u32).collect())
                }
                3 => {
                    let a: &[T] = v.as_ref();
                    let n1 = a.len();
                    let m: &mut [T] = v.as_mut();
                    let n2 = m.len();
                    let bw: &[T] = std::borrow::Borrow::borrow(&*v);
                    let s1: &BVec<'b, T> = v.as_ref();
                    Res::Keys(vec![n1 as u32, n2 as u32, bw.len() as u32, s1.len() as u32, v.as_slice().len() as u32, v.as_mut_slice().len() as u32, v.is_empty() as u32])
                }
                _ => {
                    let mut h = std::collections::hash_map::DefaultHasher::new();
                    keys_of(v).hash(&mut h);
                    Res::Keys(vec![(h.finish() & 0xffff) as u32, format!("{:?}", keys_of(v)).len() as u32])
                }
            }
        }
        VOp::IterRev => Res::Keys(v.iter().rev().map(|x| x.key()).collect()),
        VOp::Eq => {
            let c = v.clone();
            let e = c == *v && c.as_slice() == v.as_slice();
            Res::Keys(vec![e as u32, format!("{:?}", keys_of(v)).len() as u32, v.len() as u32, v.is_empty() as u32])
        }
    }
}

/// the reference program on std's Vec
pub fn apply_s<T: El>(v: &mut Vec<T>, op: &VOp, sboxes: &mut Vec<Box<[T]>>) -> Res {
    match op {
        VOp::Push(k) => {
            v.push(T::mk(*k));
            Res::Unit
        }
        VOp::Pop => Res::Key(v.pop().map(|x| x.key())),
        VOp::Insert(i, k) => {
            let x = T::mk(*k);
            v.insert(*i, x);
            Res::Unit
        }
        VOp::Remove(i) => Res::Key(Some(v.remove(*i).key())),
        VOp::SwapRemove(i) => Res::Key(Some(v.swap_remove(*i).key())),
        VOp::Truncate(n) => {
            v.truncate(*n);
            Res::Unit
        }
        VOp::Clear => {
            v.clear();
            Res::Unit
        }
        VOp::Resize(n, k) => {
            let x = T::mk(*k);
            v.resize(*n, x);
            Res::Unit
        }
        VOp::ExtendIter(ks) => {
            v.extend(kiter_h::<T>(ks, ks.len() + ks.first().copied().unwrap_or(0) as usize));
            Res::Unit
        }
        VOp::ExtendFromSlice(ks) | VOp::ExtendCopy(ks) => {
            let items = mkv::<T>(ks);
            v.extend_from_slice(&items);
            Res::Unit
        }
        VOp::ExtendSlicesCopy(parts) => {
            let owned: Vec<Vec<T>> = parts.iter().map(|p| mkv::<T>(p)).collect();
            for p in &owned {
                v.extend_from_slice(p);
            }
            Res::Unit
        }
        VOp::Append(ks) => {
            let mut other: Vec<T> = kiter::<T>(ks, true).collect();
            v.append(&mut other);
            Res::Flag(other.is_empty())
        }
        VOp::SplitOff(at, keep_tail) => {
            let tail = v.split_off(*at);
            let r = Res::Keys(keys_of(&tail));
            if *keep_tail {
                let head = std::mem::replace(v, tail);
                drop(head);
            }
            r
        }
        VOp::Drain(lo, hi, front, back, forget) => {
            let mut d = v.drain((bound(*lo), bound(*hi)));
            let mut out = Vec::new();
            for _ in 0..*front {
                if let Some(x) = d.next() {
                    out.push(x.key());
                }
            }
            for _ in 0..*back {
                if let Some(x) = d.next_back() {
                    out.push(x.key());
                }
            }
            out.push(d.len() as u32 | 0x8000_0000);
            if *forget {
                std::mem::forget(d);
            } else {
                drop(d);
            }
            Res::Keys(out)
        }
        VOp::Splice(lo, hi, ks, exact, take) => {
            let mut s = v.splice((bound(*lo), bound(*hi)), kiter::<T>(ks, *exact));
            let mut out = Vec::new();
            for _ in 0..*take {
                if let Some(x) = s.next() {
                    out.push(x.key());
                }
            }
            drop(s);
            Res::Keys(out)
        }
        VOp::SpliceHuge(lo, hi, ks) => {
            let s = v.splice((bound(*lo), bound(*hi)), huge_iter::<T>(ks));
            drop(s);
            Res::Unit
        }
        VOp::RetainPanic(m, k) => {
            let m = *m;
            let k = *k;
            let mut calls = 0usize;
            v.retain(|x| {
                calls += 1;
                if calls == k {
                    std::panic::panic_any(ledger::FusePanic);
                }
                x.key() % m != 0
            });
            Res::Unit
        }
        VOp::Retain(m) => {
            let m = *m;
            let mut seen = Vec::new();
            v.retain(|x| {
                seen.push(x.key());
                x.key() % m != 0
            });
            Res::Keys(seen)
        }
        VOp::DrainFilter(m, take, forget) => {
            // reference semantics of drain_filter: every matching element is removed (the ones not
            // consumed through the iterator are dropped when the iterator is dropped).  A *leaked*
            // iterator leaves the vector empty: everything not yielded is leaked, nothing is
            // dropped (the length is set to 0 up front as a leak-amplification guard).
            let m = *m;
            if *forget {
                let n = take.unwrap_or(usize::MAX);
                let mut yielded = Vec::new();
                let mut i = 0;
                while i < v.len() && yielded.len() < n {
                    if v[i].key() % m == 0 {
                        yielded.push(v.remove(i));
                    } else {
                        i += 1;
                    }
                }
                // leak the rest without running destructors
                let old = std::mem::take(v);
                let mut old = std::mem::ManuallyDrop::new(old);
                unsafe {
                    old.set_len(0);
                    std::mem::ManuallyDrop::drop(&mut old);
                }
                return Res::Keys(yielded.iter().map(|x| x.key()).collect());
            }
            let mut removed = Vec::new();
            let mut i = 0;
            while i < v.len() {
                if v[i].key() % m == 0 {
                    removed.push(v.remove(i));
                } else {
                    i += 1;
                }
            }
            let n = take.unwrap_or(usize::MAX).min(removed.len());
            Res::Keys(removed[..n].iter().map(|x| x.key()).collect())
        }
        VOp::DedupByAsym(m) => {
            let m = *m;
            v.dedup_by(|a, b| a.key() % m == 0 && b.key() % m != 0);
            Res::Unit
        }
        VOp::Dedup => {
            v.dedup();
            Res::Unit
        }
        VOp::DedupBy(m) => {
            let m = *m;
            v.dedup_by(|a, b| a.key() % m == b.key() % m);
            Res::Unit
        }
        VOp::DedupByKey(m) => {
            let m = *m;
            v.dedup_by_key(|a| a.key() % m);
            Res::Unit
        }
        VOp::Reserve(n) => {
            v.reserve(*n);
            Res::Flag(true)
        }
        VOp::ReserveExact(n) => {
            v.reserve_exact(*n);
            Res::Flag(true)
        }
        VOp::TryReserve(n) => Res::Flag(v.try_reserve(*n).is_ok()),
        VOp::TryReserveExact(n) => Res::Flag(v.try_reserve_exact(*n).is_ok()),
        VOp::ShrinkToFit => {
            v.shrink_to_fit();
            Res::Unit
        }
        VOp::CloneSwap => {
            let c = v.clone();
            let old = std::mem::replace(v, c);
            drop(old);
            Res::Unit
        }
        VOp::CloneFrom(ks) => {
            let other: Vec<T> = kiter::<T>(ks, true).collect();
            v.clone_from(&other);
            Res::Keys(keys_of(&other))
        }
        VOp::IntoIter(front, back, keep) => {
            let old = std::mem::take(v);
            let mut it = old.into_iter();
            let mut out = Vec::new();
            for _ in 0..*front {
                if let Some(x) = it.next() {
                    out.push(x.key());
                }
            }
            for _ in 0..*back {
                if let Some(x) = it.next_back() {
                    out.push(x.key());
                }
            }
            out.push(it.len() as u32 | 0x8000_0000);
            out.extend(it.as_slice().iter().map(|x| x.key()));
            if *keep {
                *v = it.collect();
            } else {
                drop(it);
            }
            Res::Keys(out)
        }
        VOp::IntoIterSkip(how, n) => {
            let old = std::mem::take(v);
            let mut it = old.into_iter();
            let out: Vec<u32> = match how {
                0 => {
                    let a = it.nth(*n).map(|x| x.key());
                    let mut o: Vec<u32> = a.into_iter().collect();
                    o.push(it.len() as u32 | 0x8000_0000);
                    o.extend(it.map(|x| x.key()));
                    o
                }
                1 => it.skip(*n).map(|x| x.key()).collect(),
                2 => it.step_by(*n + 1).map(|x| x.key()).collect(),
                _ => {
                    let a = it.nth_back(*n).map(|x| x.key());
                    let mut o: Vec<u32> = a.into_iter().collect();
                    o.extend(it.rev().map(|x| x.key()));
                    o
                }
            };
            Res::Keys(out)
        }
        VOp::IntoBumpSlice(_) => {
            // leak-by-design on the arena side; the reference forgets its elements too
            let old = std::mem::take(v);
            let ks = keys_of(&old);
            let mut old = std::mem::ManuallyDrop::new(old);
            // free the buffer but not the elements
            unsafe {
                old.set_len(0);
                std::mem::ManuallyDrop::drop(&mut old);
            }
            Res::Keys(ks)
        }
        VOp::IntoBoxedSlice => {
            let old = std::mem::take(v);
            let bx = old.into_boxed_slice();
            let ks = keys_of(&bx);
            sboxes.push(bx);
            if sboxes.len() > KEPT_BOXES {
                drop(sboxes.remove(0));
            }
            Res::Keys(ks)
        }
        VOp::FromIterIn(ks) => {
            let n: Vec<T> = kiter_h::<T>(ks, ks.len() + 1 + ks.first().copied().unwrap_or(0) as usize).collect();
            let old = std::mem::replace(v, n);
            drop(old);
            Res::Unit
        }
        VOp::CollectIn(ks) => {
            let n: Vec<T> = kiter_h::<T>(ks, ks.len() + 2 + ks.first().copied().unwrap_or(0) as usize).collect();
            let old = std::mem::replace(v, n);
            drop(old);
            Res::Unit
        }
        VOp::CollectInShort(ks, stop, mode) => {
            let stop = *stop;
            let stop2 = stop + 1 + stop % 3;
            let pulled = std::cell::Cell::new(0u32);
            let items = kiter::<T>(ks, ks.len() % 2 == 0).enumerate().inspect(|_| pulled.set(pulled.get() + 1));
            let bad = |i: usize| i == stop || i == stop2;
            let got: Result<Vec<T>, u32> = match mode {
                0 => items.map(|(i, x)| if bad(i) { Err(x.key() + 1000 * i as u32) } else { Ok(x) }).collect::<Result<Vec<T>, u32>>(),
                1 => items.map(|(i, x)| if bad(i) { None } else { Some(x) }).collect::<Option<Vec<T>>>().ok_or(0),
                2 => items.map(|(i, x)| if bad(i) { Err(x.key() + 1000 * i as u32) } else { Ok(x) }).collect::<Result<Box<[T]>, u32>>().map(|bx| bx.into_vec()),
                _ => items.map(|(i, x)| if bad(i) { None } else { Some(x) }).collect::<Option<Box<[T]>>>().map(|bx| bx.into_vec()).ok_or(0),
            };
            match got {
                Ok(n) => {
                    let old = std::mem::replace(v, n);
                    drop(old);
                    Res::Keys(vec![u32::MAX, pulled.get()])
                }
                Err(e) => Res::Keys(vec![e, pulled.get()]),
            }
        }
        VOp::MacroList(ks) => {
            let n: Vec<T> = ks.iter().take(3).map(|k| T::mk(*k)).collect();
            let old = std::mem::replace(v, n);
            drop(old);
            Res::Unit
        }
        VOp::MacroRepeat(k, n) => {
            let e = T::mk(*k);
            let nv: Vec<T> = vec![e; *n];
            let old = std::mem::replace(v, nv);
            drop(old);
            Res::Unit
        }
        VOp::WithCapacity(n) => {
            let nv: Vec<T> = Vec::with_capacity(*n);
            let old = std::mem::replace(v, nv);
            drop(old);
            Res::Flag(true)
        }
        VOp::Index(i) => Res::Key(Some(v[*i].key())),
        VOp::Get(i) => Res::Key(v.get(*i).map(|x| x.key())),
        VOp::SetIndexMut(i, k) => {
            v[*i] = T::mk(*k);
            Res::Unit
        }
        VOp::IoWrite(_) => Res::Unit,
        VOp::SliceIndex(form, a, c) => {
            let (a, c) = (*a, *c);
            let t: &[T] = match form {
                0 => &v[a..c],
                1 => &v[..c],
                2 => &v[a..],
                3 => &v[..],
                4 => &v[a..=c],
                _ => &v[..=c],
            };
            let out = keys_of(t);
            let m: &mut [T] = match form {
                0 => &mut v[a..c],
                1 => &mut v[..c],
                2 => &mut v[a..],
                3 => &mut v[..],
                4 => &mut v[a..=c],
                _ => &mut v[..=c],
            };
            m.reverse();
            Res::Keys(out)
        }
        VOp::TraitOps(which, ks) => {
            use std::hash::{Hash, Hasher};
            match which {
                0 => {
                    for x in v.iter_mut() {
                        if x.key() % 2 == 0 {
                            *x = T::mk(x.key() + 1);
                        }
                    }
                    Res::Unit
                }
                1 => {
                    let mut out = Vec::new();
                    for x in &*v {
                        out.push(x.key());
                    }
                    for x in &mut *v {
                        out.push(x.key() ^ 1);
                    }
                    Res::Keys(out)
                }
                2 => {
                    let other: Vec<T> = kiter::<T>(ks, true).collect();
                    let e = [*v == other, v.as_slice() == other.as_slice(), *v == other.as_slice()];
                    Res::Keys(e.iter().map(|x| *x as u32).collect())
                }
                3 => {
                    let a: &[T] = v.as_ref();
                    let n1 = a.len();
                    let m: &mut [T] = v.as_mut();
                    let n2 = m.len();
                    let bw: &[T] = std::borrow::Borrow::borrow(&*v);
                    let s1: &Vec<T> = v.as_ref();
                    Res::Keys(vec![n1 as u32, n2 as u32, bw.len() as u32, s1.len() as u32, v.as_slice().len() as u32, v.as_mut_slice().len() as u32, v.is_empty() as u32])
                }
                _ => {
                    let mut h = std::collections::hash_map::DefaultHasher::new();
                    keys_of(v).hash(&mut h);
                    Res::Keys(vec![(h.finish() & 0xffff) as u32, format!("{:?}", keys_of(v)).len() as u32])
                }
            }
        }
        VOp::IterRev => Res::Keys(v.iter().rev().map(|x| x.key()).collect()),
        VOp::Eq => {
            let c = v.clone();
            let e = c == *v;
            Res::Keys(vec![e as u32, format!("{:?}", keys_of(v)).len() as u32, v.len() as u32, v.is_empty() as u32])
        }
    }
}

/// `additional` for the reserve family: small, or (1 in 5) from the class where `len + additional`
/// overflows or exceeds isize::MAX bytes for every non-zero element size, so that std answers with
/// CapacityOverflow / a "capacity overflow" panic before asking its allocator for anything.
fn gen_additional(rng: &mut Rng, len: usize, small: usize) -> usize {
    if rng.chance(1, 3) {
        // often inside whatever spare capacity there is (reserve must then be a no-op)
        return rng.below(6);
    }
    if rng.chance(4, 5) {
        return rng.below(small);
    }
    match rng.below(5) {
        0 => usize::MAX,
        1 => usize::MAX - len,
        2 => (usize::MAX - len).wrapping_add(1),
        3 => (isize::MAX as usize) + 1,
        _ => usize::MAX - rng.below(64),
    }
}

fn gen_keys(rng: &mut Rng, max: usize) -> Vec<u32> {
    let n = rng.below(max + 1);
    (0..n).map(|_| rng.below(40) as u32 + 1).collect()
}

fn gen_idx(rng: &mut Rng, len: usize) -> usize {
    match rng.below(12) {
        0 => 0,
        1 => len,
        2 => len.saturating_sub(1),
        3 => len + 1,
        4 => len + rng.below(5),
        5 => usize::MAX,
        _ => {
            if len == 0 {
                0
            } else {
                rng.below(len)
            }
        }
    }
}

fn gen_bound(rng: &mut Rng, len: usize) -> B {
    let k = match rng.below(6) {
        0 | 1 => 0u8,
        2 | 3 => 1,
        _ => 2,
    };
    (k, if rng.chance(1, 14) { usize::MAX } else { gen_idx(rng, len) })
}

/// `safe_sizes`: keep reservation sizes small (std would abort on real allocation failure)
pub fn gen_op<T: El>(rng: &mut Rng, len: usize) -> VOp {
    let small = if cfg!(miri) { 6 } else { 12 };
    match rng.below(60) {
        0..=7 => VOp::Push(rng.below(40) as u32 + 1),
        8..=9 => VOp::Pop,
        10..=12 => VOp::Insert(gen_idx(rng, len), rng.below(40) as u32 + 1),
        13..=15 => VOp::Remove(gen_idx(rng, len)),
        16..=17 => VOp::SwapRemove(gen_idx(rng, len)),
        18..=19 => VOp::Truncate(gen_idx(rng, len)),
        20 => VOp::Clear,
        21..=22 => VOp::Resize(if rng.chance(1, 2) { rng.below(len + small) } else { rng.below(len + 1) }, rng.below(40) as u32 + 1),
        23..=24 => VOp::ExtendIter(gen_keys(rng, small)),
        25 => VOp::ExtendFromSlice(gen_keys(rng, small)),
        26 => VOp::ExtendCopy(gen_keys(rng, small)),
        27 => VOp::ExtendSlicesCopy((0..rng.below(4)).map(|_| gen_keys(rng, 5)).collect()),
        28 => VOp::Append(gen_keys(rng, small)),
        29..=30 => VOp::SplitOff(gen_idx(rng, len), rng.chance(1, 2)),
        31..=34 => VOp::Drain(gen_bound(rng, len), gen_bound(rng, len), rng.below(4), rng.below(3), rng.chance(1, 8)),
        35..=37 => {
            if std::mem::size_of::<T>() > 0 && rng.chance(1, 8) {
                VOp::SpliceHuge(gen_bound(rng, len), gen_bound(rng, len), gen_keys(rng, 5))
            } else {
                VOp::Splice(gen_bound(rng, len), gen_bound(rng, len), gen_keys(rng, 7), rng.chance(1, 2), rng.below(4))
            }
        }
        38..=39 => {
            if rng.chance(1, 3) {
                VOp::RetainPanic(rng.range(2, 5) as u32, rng.range(1, 8))
            } else {
                VOp::Retain(rng.range(1, 5) as u32)
            }
        }
        40..=41 => {
            let take = if rng.chance(1, 2) { None } else { Some(rng.below(4)) };
            let forget = take.is_some() && rng.chance(1, 4);
            VOp::DrainFilter(rng.range(1, 5) as u32, take, forget)
        }
        42 => VOp::Dedup,
        43 => {
            if rng.chance(1, 2) {
                VOp::DedupBy(rng.range(1, 4) as u32)
            } else {
                VOp::DedupByAsym(rng.range(2, 4) as u32)
            }
        }
        44 => VOp::DedupByKey(rng.range(1, 4) as u32),
        45 => VOp::Reserve(gen_additional(rng, len, 200)),
        46 => VOp::ReserveExact(gen_additional(rng, len, 100)),
        47 => {
            if rng.chance(1, 2) {
                VOp::TryReserve(gen_additional(rng, len, 300))
            } else {
                VOp::TryReserveExact(gen_additional(rng, len, 300))
            }
        }
        48 => VOp::ShrinkToFit,
        49 => {
            if rng.chance(1, 2) {
                VOp::CloneSwap
            } else {
                VOp::CloneFrom(gen_keys(rng, len + 4))
            }
        }
        50..=51 => {
            if rng.chance(1, 3) {
                VOp::IntoIterSkip(rng.below(4) as u8, rng.below(4))
            } else {
                VOp::IntoIter(rng.below(4), rng.below(4), rng.chance(2, 3))
            }
        }
        52 => VOp::IntoBumpSlice(rng.chance(1, 2)),
        53 => VOp::IntoBoxedSlice,
        54 => match rng.below(7) {
            5 | 6 => {
                let ks = gen_keys(rng, small);
                let stop = rng.below(ks.len() + 3);
                VOp::CollectInShort(ks, stop, rng.below(4) as u8)
            }
            0 => VOp::FromIterIn(gen_keys(rng, small)),
            1 => VOp::CollectIn(gen_keys(rng, small)),
            2 => VOp::MacroList(gen_keys(rng, 3)),
            3 => VOp::MacroRepeat(rng.below(40) as u32 + 1, rng.below(9)),
            _ => VOp::WithCapacity(rng.below(100)),
        },
        55 => VOp::Index(gen_idx(rng, len)),
        56 => VOp::Get(gen_idx(rng, len)),
        57 => VOp::SetIndexMut(gen_idx(rng, len), rng.below(40) as u32 + 1),
        58 => {
            if T::IS_U8 {
                VOp::IoWrite((0..rng.below(20)).map(|_| rng.below(250) as u8).collect())
            } else {
                VOp::IterRev
            }
        }
        _ => match rng.below(4) {
            0 => VOp::IterRev,
            1 => VOp::Eq,
            2 => VOp::SliceIndex(rng.below(6) as u8, gen_idx(rng, len), gen_idx(rng, len)),
            _ => VOp::TraitOps(rng.below(5) as u8, gen_keys(rng, 6)),
        },
    }
}

/// One bumpalo vector mirrored by a std vector.
pub struct Pair<'b, T: El> {
    pub b: &'b Bump,
    pub bv: BVec<'b, T>,
    pub sv: Vec<T>,
    pub kept: Kept<'b, T>,
    pub sboxes: Vec<Box<[T]>>,
    /// buffer size in bytes before the last op
    pub last_cap_bytes: usize,
    pub ops: u64,
    pub panics: u64,
}

impl<'b, T: El> Pair<'b, T> {
    pub fn new(b: &'b Bump) -> Self {
        Pair { b, bv: BVec::new_in(b), sv: Vec::new(), kept: Kept { slices: Vec::new(), boxes: Vec::new() }, sboxes: Vec::new(), last_cap_bytes: 0, ops: 0, panics: 0 }
    }

    pub fn run_op(&mut self, rep: &mut Report, op: &VOp, check_drops: bool) {
        self.run_op_fused(rep, op, check_drops, None)
    }

    /// `clone_fuse`: make the k-th `Clone::clone` call inside the op panic, on both sides alike
    /// (only used for the Clone-driven ops, whose unwinding behaviour std documents: elements
    /// cloned so far are kept).
    pub fn run_op_fused(&mut self, rep: &mut Report, op: &VOp, check_drops: bool, fuse: Option<(u8, u64)>) {
        let clone_fuse = match fuse {
            Some((k, n)) if k == ledger::F_CLONE => Some(n),
            _ => None,
        };
        let name = op.name();
        let mark = ledger::log_len();
        ledger::set_side(1);
        if let Some((kind, k)) = fuse {
            ledger::arm(kind, k);
        }
        let b = self.b;
        let before = (self.bv.as_ptr() as usize, self.bv.capacity(), self.bv.len());
        if before.1 > 0 {
            self.last_cap_bytes = before.1.saturating_mul(std::mem::size_of::<T>());
        }
        let bv = &mut self.bv;
        let kept = &mut self.kept;
        let rb = catch_unwind(AssertUnwindSafe(|| apply_b::<T>(b, bv, op, kept)));
        let msg_b = if rb.is_err() { last_panic() } else { String::new() };
        ledger::set_side(2);
        if let Some((kind, k)) = fuse {
            ledger::arm(kind, k);
        }
        let rs = {
            let _p = halloc::pause();
            let sv = &mut self.sv;
            let sboxes = &mut self.sboxes;
            catch_unwind(AssertUnwindSafe(|| apply_s::<T>(sv, op, sboxes)))
        };
        let msg_s = if rs.is_err() { last_panic() } else { String::new() };
        ledger::disarm();
        ledger::set_side(0);
        let check_drops = check_drops && !(clone_fuse.is_some() && rb.is_err());
        if clone_fuse.is_some() && rb.is_err() && rs.is_err() {
            rep.bump("c13.clone_panics_on_both_sides");
        }
        if fuse.is_some() && clone_fuse.is_none() && rb.is_err() && rs.is_err() {
            rep.bump("c13.iterator_panics_on_both_sides");
        }
        if let VOp::IoWrite(bytes) = op {
            ledger::set_side(1);
            T::io_write(&mut self.bv, &mut self.sv, bytes);
            ledger::set_side(0);
        }
        if let (VOp::Reserve(n) | VOp::ReserveExact(n) | VOp::TryReserve(n) | VOp::TryReserveExact(n), true) = (op, rb.is_ok()) {
            // "does nothing if the capacity is already sufficient": no move, no regrowth
            if std::mem::size_of::<T>() > 0 && before.1 - before.2 >= *n {
                rep.bump("c13.reserve_within_capacity_checked");
                if self.bv.as_ptr() as usize != before.0 || self.bv.capacity() != before.1 {
                    let d = format!("len {} capacity {} additional {}: buffer {:#x} -> {:#x}, capacity -> {}", before.2, before.1, n, before.0, self.bv.as_ptr() as usize, self.bv.capacity());
                    rep.violate("C13", format!("C13/vec<{}>/{}/request-inside-the-capacity-was-not-a-no-op", T::NAME, name), d.clone());
                    rep.violate("C18", format!("C18/vec<{}>/{}/reserved-capacity-moved-without-need", T::NAME, name), d);
                }
            }
        }
        self.ops += 1;
        rep.bump("c13.ops");
        match (&rb, &rs) {
            (Ok(a), Ok(b)) => {
                if a != b {
                    rep.violate("C13", format!("C13/vec<{}>/{}/returned-value-differs-from-std", T::NAME, name), format!("bumpalo {:?} std {:?} (op {:?})", a, b, op));
                }
                if let (Res::Flag(false), true) = (a, matches!(op, VOp::Reserve(..) | VOp::ReserveExact(..) | VOp::WithCapacity(..))) {
                    rep.violate("C13", format!("C13/vec<{}>/{}/capacity-below-promise", T::NAME, name), format!("{:?}", op));
                }
            }
            (Err(_), Err(_)) => {
                self.panics += 1;
                rep.bump("c13.ops_panicking_on_both_sides");
            }
            (Ok(a), Err(_)) => {
                rep.violate("C13", format!("C13/vec<{}>/{}/std-panics-bumpalo-returns", T::NAME, name), format!("bumpalo returned {:?}; std panicked: {} (op {:?}, len before unknown)", a, msg_s, op));
            }
            (Err(_), Ok(b)) => {
                rep.violate("C13", format!("C13/vec<{}>/{}/bumpalo-panics-std-returns", T::NAME, name), format!("std returned {:?}; bumpalo panicked: {} (op {:?})", b, msg_b, op));
            }
        }
        if let (VOp::SpliceHuge(..), true, true) = (op, rb.is_err(), rs.is_err()) {
            // Both refused by panicking, as they must.  What is left in the vector after the unwind
            // is an implementation detail of each library (how much of the replacement was already
            // written), so contents are not compared with std here; but every element still in the
            // vector must be a value the program put there, not bytes from memory the vector does
            // not own (C19: a refusal never leaves the vector claiming memory it has not reserved).
            let bad = self.bv.iter().position(|x| !x.well_formed());
            if let Some(i) = bad {
                rep.violate("C13", format!("C13/vec<{}>/{}/garbage-element-after-refused-reservation", T::NAME, name), format!("element {} of {} is not a value the program stored ({:?})", i, self.bv.len(), op));
                rep.violate("C19", format!("C19/vec<{}>/{}/vector-claims-memory-it-did-not-reserve", T::NAME, name), format!("element {} of {} after the refused reservation ({:?})", i, self.bv.len(), op));
            }
            rep.bump("c19.refused_splice_reservations_checked");
            self.bv = BVec::new_in(self.b);
            let _p = halloc::pause();
            self.sv = Vec::new();
            return;
        }
        self.check(rep, name);
        if keys_of(&self.bv) != keys_of(&self.sv) {
            // one divergence is reported once: restart this pair from empty containers
            self.bv = BVec::new_in(self.b);
            let _p = halloc::pause();
            self.sv = Vec::new();
        }
        if T::TRACKED && check_drops {
            let (db, ds) = ledger::dropped_keys_since(mark);
            if db != ds {
                let sig = if db.len() > ds.len() { "more-drops-than-std" } else if db.len() < ds.len() { "fewer-drops-than-std" } else { "different-elements-dropped" };
                rep.violate("C15", format!("C15/vec/{}/{}", name, sig), format!("bumpalo dropped keys {:?}, std dropped keys {:?} (op {:?})", db, ds, op));
            }
            rep.bump("c15.ops_drop_sets_compared");
            rep.add("c15.drops_observed", db.len() as u64);
            let d = ledger::doubles();
            if !d.is_empty() {
                rep.violate("C15", format!("C15/vec/{}/double-drop", name), format!("ids {:?} (op {:?})", d, op));
            }
            let g = ledger::take_garbage_drops();
            if g > 0 {
                rep.violate("C15", format!("C15/vec/{}/destructor-ran-on-a-slot-that-holds-no-value", name), format!("{} call(s) (op {:?})", g, op));
            }
        }
    }

    pub fn check(&self, rep: &mut Report, name: &str) {
        let kb = keys_of(&self.bv);
        let ks = keys_of(&self.sv);
        if kb != ks {
            // the same program on std's Vec is also the record of what the caller put into the vector
            rep.violate("C02", format!("C02/vec<{}>/elements-read-back-differ-from-what-was-put-in", T::NAME), format!("after {}: bumpalo len {} std len {}", name, kb.len(), ks.len()));
            rep.violate(
                "C13",
                format!("C13/vec<{}>/{}/contents-differ-from-std", T::NAME, name),
                format!("bumpalo len {} {:?}.. std len {} {:?}..", kb.len(), &kb[..kb.len().min(12)], ks.len(), &ks[..ks.len().min(12)]),
            );
        }
        if self.bv.capacity() < self.bv.len() {
            rep.violate("C13", format!("C13/vec<{}>/{}/capacity-below-len", T::NAME, name), String::new());
        }
        // C04 at the collections layer: the buffer is aligned for its element type (also after a move)
        let al = std::mem::align_of::<T>();
        if (self.bv.as_ptr() as usize) % al != 0 {
            rep.violate("C04", format!("C04/collections/vec<{}>/buffer-misaligned-for-its-element-type", T::NAME), format!("{:#x} after {} (align {}, capacity {})", self.bv.as_ptr() as usize, name, al, self.bv.capacity()));
            rep.violate("C13", format!("C13/vec<{}>/{}/buffer-misaligned-for-its-element-type", T::NAME, name), format!("{:#x} (align {})", self.bv.as_ptr() as usize, al));
        }
        rep.bump("c04.collection_buffers_checked");
        if T::TRACKED {
            // reachable elements are live (not dropped), distinct
            let mut ids: Vec<u32> = Vec::new();
            for x in self.bv.iter() {
                if !x.live_ok() {
                    rep.violate("C15", format!("C15/vec/{}/dropped-value-still-reachable", name), format!("{:?}", x));
                }
                if let Some(i) = x.id() {
                    ids.push(i);
                }
            }
            ids.sort();
            let n = ids.len();
            ids.dedup();
            if ids.len() != n {
                rep.violate("C15", format!("C15/vec/{}/value-duplicated-in-container", name), String::new());
            }
        }
        // leaked slices stay intact and are never dropped
        for (bx, ks) in &self.kept.boxes {
            if keys_of(bx) != *ks {
                rep.violate("C13", format!("C13/vec<{}>/into_boxed_slice/live-box-changed-after-{}", T::NAME, name), format!("now {:?}, was {:?}", keys_of(bx), ks));
                rep.violate("C02", "C02/into_boxed_slice/contents-of-the-live-box-changed-by-a-later-operation", format!("vec<{}> after {}", T::NAME, name));
            }
            if T::TRACKED && bx.iter().any(|x| !x.live_ok()) {
                rep.violate("C15", "C15/vec/into_boxed_slice/destructor-ran-on-an-element-of-a-live-box", format!("after {}", name));
            }
        }
        if !self.kept.boxes.is_empty() {
            rep.bump("c02.live_boxed_slices_rechecked");
        }
        for (p, n, ks) in &self.kept.slices {
            let s = unsafe { std::slice::from_raw_parts(*p, *n) };
            if keys_of(s) != *ks {
                rep.violate("C13", format!("C13/vec<{}>/into_bump_slice/leaked-slice-changed-after-{}", T::NAME, name), String::new());
                rep.violate("C02", "C02/into_bump_slice/contents-of-the-returned-slice-changed-by-a-later-operation", format!("vec<{}> after {}", T::NAME, name));
            }
            if T::TRACKED && s.iter().any(|x| !x.live_ok()) {
                rep.violate("C15", "C15/vec/into_bump_slice/destructor-ran-on-leaked-slice", format!("after {}", name));
            }
        }
    }

    /// drop both containers; for tracked elements everything except intentional leaks is gone
    pub fn finish(self, rep: &mut Report) {
        let Pair { bv, sv, kept, sboxes, .. } = self;
        let Kept { slices, boxes } = kept;
        let mark = ledger::log_len();
        drop(bv);
        drop(boxes);
        {
            let _p = halloc::pause();
            drop(sv);
            drop(sboxes);
        }
        if T::TRACKED {
            let (db, ds) = ledger::dropped_keys_since(mark);
            if db != ds {
                rep.violate("C15", "C15/vec/drop-container/drop-set-differs-from-std", format!("bumpalo {:?} std {:?}", db, ds));
            }
            for (p, n, _) in &slices {
                let s = unsafe { std::slice::from_raw_parts(*p, *n) };
                if s.iter().any(|x| !x.live_ok()) {
                    rep.violate("C15", "C15/vec/into_bump_slice/destructor-ran-on-leaked-slice", "at end".to_string());
                }
            }
        }
    }
}
