//! Arena engine: drives one `Bump<M>` through the public API only, and keeps
//!  * the *ledger* of blocks the arena holds from the global allocator (from halloc events,
//!    attributed by the claim rule: a block is the arena's iff a footer address yielded by
//!    `iter_allocated_chunks_raw` lies inside it),
//!  * the *shadow* of live caller-visible blocks with their expected bytes.
//! Monitors for C01 C02 C03 C04 C06 C07 C08 C10 (and parts of C11 C12 C18) run after every op.
#![allow(dead_code)]

use crate::halloc::{self, Event, EV_ALLOC, EV_DEALLOC, RES_BAD_LAYOUT, RES_DOUBLE_FREE, RES_OK};
use crate::report::{fnv, Report};
use crate::rng::Rng;
use bumpalo::Bump;
use std::cell::RefCell;
use std::collections::BTreeMap;
use std::mem::ManuallyDrop;
use std::panic::{catch_unwind, AssertUnwindSafe};

static K_CACHE: std::sync::atomic::AtomicUsize = std::sync::atomic::AtomicUsize::new(0);

thread_local! {
    pub static LAST_PANIC: RefCell<String> = RefCell::new(String::new());
}

/// Install a silent panic hook that remembers the message (per thread).
pub fn install_panic_hook() {
    std::panic::set_hook(Box::new(|info| {
        let _p = halloc::pause();
        let msg = if let Some(s) = info.payload().downcast_ref::<&str>() {
            s.to_string()
        } else if let Some(s) = info.payload().downcast_ref::<String>() {
            s.clone()
        } else if info.payload().downcast_ref::<crate::ledger::FusePanic>().is_some() {
            "<fuse>".to_string()
        } else {
            "<non-string panic>".to_string()
        };
        let loc = info.location().map(|l| format!("{}:{}", l.file(), l.line())).unwrap_or_default();
        let _ = LAST_PANIC.try_with(|p| *p.borrow_mut() = format!("{} @ {}", msg, loc));
    }));
}

pub fn last_panic() -> String {
    LAST_PANIC.with(|p| p.borrow().clone())
}

/// classify a panic message raised while calling into bumpalo
#[derive(Clone, Copy, PartialEq, Eq, Debug)]
pub enum PanicClass {
    Oom,
    SizeOverflow,
    CapacityOverflow,
    Fuse,
    Other,
}
pub fn classify_panic(msg: &str) -> PanicClass {
    if msg.starts_with("out of memory") {
        PanicClass::Oom
    } else if msg.starts_with("requested allocation size overflowed") {
        PanicClass::SizeOverflow
    } else if msg.starts_with("capacity overflow") || msg.contains("encountered allocation error") {
        PanicClass::CapacityOverflow
    } else if msg.starts_with("<fuse>") {
        PanicClass::Fuse
    } else {
        PanicClass::Other
    }
}

/// strip hex addresses and numbers so that a message can be used in a signature
pub fn normalise_msg(msg: &str) -> String {
    let (text, loc) = match msg.rfind(" @ ") {
        Some(i) => (&msg[..i], &msg[i + 3..]),
        None => (msg, ""),
    };
    let mut out = String::new();
    let b: Vec<char> = text.chars().collect();
    let mut i = 0;
    while i < b.len() && out.len() < 70 {
        if b[i] == '0' && i + 1 < b.len() && b[i + 1] == 'x' {
            i += 2;
            while i < b.len() && b[i].is_ascii_hexdigit() {
                i += 1;
            }
            out.push('P');
        } else if b[i].is_ascii_digit() {
            while i < b.len() && b[i].is_ascii_digit() {
                i += 1;
            }
            out.push('N');
        } else {
            out.push(if b[i] == ' ' { '_' } else { b[i] });
            i += 1;
        }
    }
    if !loc.is_empty() {
        out.push('@');
        out.push_str(loc.rsplit('/').next().unwrap_or(loc));
    }
    out
}

/// write the expected bytes into a block through the caller's pointer
pub unsafe fn fill(ptr: *mut u8, exp: &[u8]) {
    std::ptr::copy_nonoverlapping(exp.as_ptr(), ptr, exp.len());
}

pub const TILE: usize = 61;

/// Expected byte `i` of the block with pattern id `id`: a 61-byte id-dependent tile repeated
/// (61 is prime, so a copy that is off by any small distance or a power of two shows up);
/// never zero, so that zero-fill mistakes are visible.
#[inline]
pub fn pat(id: u32, i: usize) -> u8 {
    let j = (i % TILE) as u32;
    let x = j.wrapping_mul(0x9E3779B1).wrapping_add(id.wrapping_mul(0x85EBCA6B));
    ((x >> 24) ^ (x >> 11)) as u8 | 1
}

#[derive(Clone, Debug)]
pub struct Chunk {
    pub base: usize,
    pub size: usize,
    pub align: usize,
    pub seq: u64,
}

pub struct Live {
    pub id: u32,
    pub ptr: *mut u8,
    pub size: usize,
    pub align: usize,
    /// extent reserved for tiling purposes (>= size): e.g. the whole Result slot
    pub extent: usize,
    /// offset of `ptr` inside the extent
    pub ext_off: usize,
    pub exp: Vec<u8>,
    /// layout to use for deallocate/grow/shrink, if the block may be handed to those
    pub layout: Option<(usize, usize)>,
    /// 1 = allocated and kept by a fallible initialiser whose call failed (C11 canary)
    pub tag: u8,
}

#[derive(Clone, Copy, Debug, PartialEq, Eq)]
pub enum OpKind {
    Construct,
    Alloc,
    Dealloc,
    Grow,
    Shrink,
    Reset,
    Limit,
    Iter,
    Drop,
    Probe,
}

pub struct Observed {
    /// (finger, len) newest first
    pub chunks: Vec<(usize, usize)>,
    pub cap: usize,
    pub ab: usize,
    pub abim: usize,
    pub limit: Option<usize>,
}

pub struct Sim<const M: usize> {
    /// boxed so that `&mut Sim` never retags the arena itself (workloads keep `&Bump` inside
    /// arena-backed collections while the engine runs ops)
    pub bump: ManuallyDrop<Box<Bump<M>>>,
    pub alive: bool,
    pub rng: Rng,
    /// ledger: blocks held, oldest first
    pub chunks: Vec<Chunk>,
    pub live: BTreeMap<usize, Live>,
    pub zst_count: u64,
    pub next_id: u32,
    pub limit: Option<usize>,
    pub k: usize,
    pub ev: Vec<Event>,
    pub trace: Vec<u64>,
    pub trace_on: bool,
    pub opno: usize,
    /// uniform mode (C10 exact image): Some(alignment)
    pub uniform: Option<usize>,
    /// pending op description for context
    pub cur: String,
    pub oplog: Vec<String>,
    pub last_obs: Option<Observed>,
    /// history flags for C18-style clauses
    pub saw_refusal: bool,
    pub saw_limit: bool,
    pub saw_reset: bool,
    pub verify_every: usize,
    pub instrumented: bool,
    pub acquired: usize,
    pub released: usize,
    /// 0 normal, 1 only None/usize::MAX limits (not traced), 2 limit calls skipped
    pub limit_mode: u8,
    /// twin runs: force every op to its fallible (true) or infallible (false) flavour
    pub force_fallible: Option<bool>,
    /// behaviour of the initialiser of slice try-fill ops: 0 nothing, 1 allocate+keep, 2 allocate+release
    pub slice_inner: u8,
    /// the allocator lost events (ring overflow): the ledger can no longer be trusted, the history
    /// is abandoned and reported as inconclusive
    pub poisoned: bool,
    /// every chunk acquisition of this Sim's life: (usable bytes held just before, usable bytes of the new chunk)
    pub acq_log: Vec<(usize, usize)>,
    /// zero-sized blocks obtained through layout-carrying calls (ptr, align, id): the Allocator ops
    /// also start from these (grow from nothing, deallocate of nothing)
    pub zsts: Vec<(*mut u8, usize, u32)>,
}

pub fn round_up(n: usize, a: usize) -> usize {
    (n + a - 1) & !(a - 1)
}

impl<const M: usize> Sim<M> {
    /// Measure the fixed per-chunk overhead on a throw-away arena: block size minus the capacity of
    /// a fresh chunk.  Also cross-checked against the arena's own accounting by the C08 monitor.
    pub fn measure_k(rep: &mut Report) -> usize {
        let cached = K_CACHE.load(std::sync::atomic::Ordering::Relaxed);
        if cached != 0 {
            return cached;
        }
        halloc::op_begin();
        let b = Bump::<M>::with_min_align_and_capacity(64);
        let ev = halloc::op_end();
        let blk = ev.iter().find(|e| e.kind == EV_ALLOC && e.cand && e.res == RES_OK);
        let k = match blk {
            Some(e) => e.size - b.chunk_capacity(),
            None => {
                rep.inconclusive.push("measure_k: no candidate event for with_capacity(64)".into());
                48
            }
        };
        drop(b);
        K_CACHE.store(k, std::sync::atomic::Ordering::Relaxed);
        k
    }

    pub fn new(seed: u64, rep: &mut Report, cap: Option<usize>, fallible_ctor: bool) -> Option<Sim<M>> {
        let k = Self::measure_k(rep);
        let mut s = Sim {
            bump: ManuallyDrop::new(Box::new(Bump::<M>::with_min_align())),
            alive: true,
            rng: Rng::new(seed),
            chunks: Vec::new(),
            live: BTreeMap::new(),
            zst_count: 0,
            next_id: 1,
            limit: None,
            k,
            ev: Vec::new(),
            trace: Vec::new(),
            trace_on: false,
            opno: 0,
            uniform: None,
            cur: String::new(),
            oplog: Vec::new(),
            last_obs: None,
            saw_refusal: false,
            saw_limit: false,
            saw_reset: false,
            verify_every: 1,
            instrumented: false,
            acquired: 0,
            released: 0,
            limit_mode: 0,
            force_fallible: None,
            slice_inner: 0,
            poisoned: false,
            zsts: Vec::new(),
            acq_log: Vec::new(),
        };
        if let Some(c) = cap {
            if !s.reconstruct(rep, Some(c), fallible_ctor) {
                return None;
            }
        } else {
            s.after_op(rep, OpKind::Construct, &[]);
        }
        Some(s)
    }

    /// Drop the current arena (monitored) and build a new one.
    pub fn reconstruct(&mut self, rep: &mut Report, cap: Option<usize>, fallible: bool) -> bool {
        if self.alive {
            self.drop_arena(rep);
        }
        self.cur = format!("construct(cap={:?},try={})", cap, fallible);
        self.begin();
        // every public constructor: the MIN_ALIGN-generic ones, Default, and (for MIN_ALIGN = 1) the
        // convenience constructors of `Bump` itself
        let variant = (self.rng.next() % 3) as u8;
        let r = catch_unwind(AssertUnwindSafe(|| -> Result<Bump<M>, bumpalo::AllocErr> {
            if M == 1 && variant == 1 {
                let b1: Bump<1> = match (cap, fallible) {
                    (None, false) => Bump::new(),
                    (None, true) => Bump::try_new()?,
                    (Some(c), false) => Bump::with_capacity(c),
                    (Some(c), true) => Bump::try_with_capacity(c)?,
                };
                // Bump<1> and Bump<M> are the same type here (M == 1); the compiler cannot see it
                let b = unsafe { std::mem::transmute_copy::<Bump<1>, Bump<M>>(&b1) };
                std::mem::forget(b1);
                return Ok(b);
            }
            if variant == 2 && cap.is_none() {
                return Ok(Bump::<M>::default());
            }
            match (cap, fallible) {
                (None, _) => Ok(Bump::<M>::with_min_align()),
                (Some(c), false) => Ok(Bump::<M>::with_min_align_and_capacity(c)),
                (Some(c), true) => Bump::<M>::try_with_min_align_and_capacity(c),
            }
        }));
        let ev = halloc::op_end();
        match r {
            Ok(Ok(b)) => {
                self.bump = ManuallyDrop::new(Box::new(b));
                self.alive = true;
                self.limit = None;
                self.saw_reset = false;
                self.saw_limit = false;
                self.saw_refusal = ev.iter().any(|e| e.kind == EV_ALLOC && e.cand && e.res != RES_OK);
                self.ingest(rep, OpKind::Construct, &ev);
                self.after_op(rep, OpKind::Construct, &ev);
                if let Some(c) = cap {
                    // C18: the capacity asked for is available in the first chunk
                    let have = self.bump.chunk_capacity();
                    if c > 0 && have < c {
                        rep.violate("C18", "C18/with_capacity/chunk_capacity-below-request", format!("asked {} got {}", c, have));
                    }
                }
                self.tr(&[1, cap.unwrap_or(usize::MAX) as u64]);
                true
            }
            Ok(Err(_)) => {
                self.check_no_residue_after_failed_ctor(rep, &ev);
                self.tr(&[2]);
                self.fresh_unmonitored();
                false
            }
            Err(_) => {
                let msg = last_panic();
                if fallible || classify_panic(&msg) == PanicClass::Other {
                    rep.violate(
                        if fallible { "C09" } else { "C01" },
                        format!("{}/ctor-panic/{}", if fallible { "C09" } else { "C01" }, normalise_msg(&msg)),
                        msg,
                    );
                }
                self.check_no_residue_after_failed_ctor(rep, &ev);
                self.tr(&[3]);
                self.fresh_unmonitored();
                false
            }
        }
    }

    fn fresh_unmonitored(&mut self) {
        self.bump = ManuallyDrop::new(Box::new(Bump::<M>::with_min_align()));
        self.alive = true;
        self.limit = None;
        self.chunks.clear();
        self.live.clear();
        self.zsts.clear();
    }

    fn check_no_residue_after_failed_ctor(&mut self, rep: &mut Report, ev: &[Event]) {
        // every block obtained during a failed constructor must have been given back
        let mut held: Vec<&Event> = Vec::new();
        for e in ev {
            if e.kind == EV_ALLOC && e.cand && e.res == RES_OK {
                held.push(e);
            } else if e.kind == EV_DEALLOC {
                held.retain(|h| h.ptr != e.ptr);
            }
        }
        if !held.is_empty() {
            rep.violate("C03", "C03/failed-constructor/leaked-block", format!("{} blocks, first size {}", held.len(), held[0].size));
        }
    }

    #[inline]
    pub fn begin(&mut self) {
        halloc::note_op(&self.cur);
        halloc::op_begin();
    }
    /// Close the window and ingest its events into the ledger (C03 / C07 monitors).
    pub fn end(&mut self, rep: &mut Report, kind: OpKind) -> Vec<Event> {
        let ev = halloc::op_end();
        self.ingest(rep, kind, &ev);
        ev
    }

    pub fn tr(&mut self, xs: &[u64]) {
        if self.trace_on {
            let mut h = 0xcbf29ce484222325u64;
            for x in xs {
                h = fnv(h, *x);
            }
            self.trace.push(h);
            self.oplog.push(self.cur.clone());
        }
    }

    pub fn observe(&self) -> Observed {
        let chunks: Vec<(usize, usize)> =
            unsafe { self.bump.iter_allocated_chunks_raw().map(|(p, l)| (p as usize, l)).collect() };
        Observed {
            chunks,
            cap: self.bump.chunk_capacity(),
            ab: self.bump.allocated_bytes(),
            abim: self.bump.allocated_bytes_including_metadata(),
            limit: self.bump.allocation_limit(),
        }
    }

    pub fn held_usable(&self) -> usize {
        self.chunks.iter().map(|c| c.size - self.k).sum()
    }
    pub fn held_total(&self) -> usize {
        self.chunks.iter().map(|c| c.size).sum()
    }

    /// Ledger update from the events of one op.
    pub fn ingest(&mut self, rep: &mut Report, kind: OpKind, ev: &[Event]) {
        if halloc::runaway() {
            rep.violate(
                "C09",
                "C09/unbounded-retries-against-refusing-allocator",
                format!("more than {} refused chunk requests inside one call ({})", halloc::RUNAWAY_LIMIT, self.cur),
            );
        }
        if halloc::overflowed() {
            let _p = halloc::pause();
            rep.inconclusive.push(format!("event ring / table overflow during `{}` ({} events)", self.cur, ev.len()));
            self.poisoned = true;
        }
        if self.poisoned {
            return;
        }
        let may_free = matches!(kind, OpKind::Reset | OpKind::Drop);
        let mut acquired = 0usize;
        let mut released = 0usize;
        for e in ev {
            if e.kind == EV_ALLOC && e.cand {
                if e.res == RES_OK {
                    // C07: conservation at acquisition time
                    if let Some(l) = self.limit {
                        let after = self.held_usable() + (e.size - self.k);
                        if after > l {
                            let before = self.held_usable();
                            let sig = if before > l {
                                "C07/limit-exceeded/held-already-above-limit"
                            } else if kind == OpKind::Construct {
                                "C07/limit-exceeded/constructor"
                            } else {
                                "C07/limit-exceeded/held-within-limit-before"
                            };
                            rep.violate("C07", sig, format!("limit {} held-before {} new chunk usable {} (op {})", l, before, e.size - self.k, self.cur));
                        }
                        rep.bump("c07.acquire_under_limit");
                    }
                    self.acq_log.push((self.held_usable(), e.size - self.k));
                    self.chunks.push(Chunk { base: e.ptr, size: e.size, align: e.align, seq: e.seq });
                    acquired += 1;
                    if e.ptr % e.align != 0 {
                        rep.inconclusive.push("allocator returned misaligned block".into());
                    }
                } else {
                    self.saw_refusal = true;
                    rep.bump("env.refused");
                }
            } else if e.kind == EV_DEALLOC {
                if let Some(i) = self.chunks.iter().position(|c| c.base == e.ptr) {
                    released += 1;
                    if e.res == RES_BAD_LAYOUT || e.size != self.chunks[i].size || e.align != self.chunks[i].align {
                        rep.violate(
                            "C03",
                            "C03/dealloc/layout-differs-from-request",
                            format!("allocated ({},{}) freed ({},{})", self.chunks[i].size, self.chunks[i].align, e.size, e.align),
                        );
                    }
                    if !may_free {
                        rep.violate("C03", format!("C03/dealloc/outside-reset-or-drop/{:?}", kind), format!("block {:#x} size {} freed during {}", e.ptr, e.size, self.cur));
                    }
                    self.chunks.remove(i);
                } else if e.res == RES_DOUBLE_FREE {
                    rep.violate("C03", "C03/dealloc/double-free", format!("block {:#x} size {} freed twice ({})", e.ptr, e.size, self.cur));
                } else if e.cand && may_free {
                    rep.violate("C03", "C03/dealloc/never-requested", format!("ptr {:#x} size {} align {} ({})", e.ptr, e.size, e.align, self.cur));
                }
            }
        }
        rep.add("ledger.acquired", acquired as u64);
        rep.add("ledger.released", released as u64);
        self.acquired = acquired;
        self.released = released;
    }

    /// Run the structural monitors after an op (events already ingested by `end`).
    pub fn after_op(&mut self, rep: &mut Report, kind: OpKind, _ev: &[Event]) {
        self.opno += 1;
        if self.poisoned {
            if kind == OpKind::Drop {
                self.chunks.clear();
            }
            return;
        }
        let acquired = self.acquired;
        let released = self.released;
        self.acquired = 0;
        self.released = 0;
        if kind == OpKind::Drop {
            if !self.chunks.is_empty() {
                rep.violate("C03", "C03/drop/blocks-still-held", format!("{} blocks not returned by drop", self.chunks.len()));
                self.chunks.clear();
            }
            return;
        }

        let obs = self.observe();

        // ---- C10 / C03: chunk list against the ledger
        if obs.chunks.len() != self.chunks.len() {
            rep.violate(
                "C10",
                "C10/iter/chunk-count-differs-from-held-blocks",
                format!("iter yields {} chunks, ledger holds {} ({})", obs.chunks.len(), self.chunks.len(), self.cur),
            );
        }
        let n = obs.chunks.len().min(self.chunks.len());
        for i in 0..n {
            let (finger, len) = obs.chunks[i];
            let footer = finger + len;
            let c = &self.chunks[self.chunks.len() - 1 - i];
            let lo = c.base;
            let hi = c.base + c.size - self.k;
            if !(lo <= finger && footer <= hi) {
                // maybe the order is wrong rather than the bounds
                let any = self.chunks.iter().any(|c| c.base <= finger && footer <= c.base + c.size - self.k);
                rep.violate(
                    "C10",
                    if any { "C10/iter/order-not-newest-first" } else { "C10/iter/slice-outside-chunk" },
                    format!("chunk #{} slice [{:#x},{:#x}) vs block [{:#x},{:#x}) ({})", i, finger, footer, lo, hi, self.cur),
                );
            } else if footer != hi {
                rep.violate("C10", "C10/iter/slice-does-not-end-at-usable-end", format!("footer {:#x} expected {:#x}", footer, hi));
            }
            if finger % M != 0 {
                rep.violate("C04", "C04/finger-not-min-aligned", format!("finger {:#x} M={} ({})", finger, M, self.cur));
            }
        }
        // ---- capacity of the current chunk
        if let (Some(&(finger, _)), Some(c)) = (obs.chunks.first(), self.chunks.last()) {
            let real = finger.wrapping_sub(c.base);
            if obs.cap > real {
                rep.violate("C18", "C18/chunk_capacity-overstates", format!("reports {} real {}", obs.cap, real));
            } else if obs.cap != real {
                rep.violate("C18", "C18/chunk_capacity-understates", format!("reports {} real {}", obs.cap, real));
            }
        } else if self.chunks.is_empty() && obs.cap != 0 {
            rep.violate("C18", "C18/chunk_capacity-nonzero-without-memory", format!("reports {}", obs.cap));
        }

        // ---- C08 accounting
        let tot = self.held_total();
        if obs.abim != tot {
            let sig = if self.saw_reset { "C08/abim-differs-from-held/after-reset" } else { "C08/abim-differs-from-held" };
            rep.violate("C08", sig, format!("abim {} held {} in {} blocks ({})", obs.abim, tot, self.chunks.len(), self.cur));
        }
        let want_ab = tot - self.k * self.chunks.len();
        if obs.ab != want_ab {
            let sig = if self.saw_reset { "C08/ab-differs-from-held-minus-overhead/after-reset" } else { "C08/ab-differs-from-held-minus-overhead" };
            rep.violate("C08", sig, format!("ab {} expected {} ({} blocks, K={}) ({})", obs.ab, want_ab, self.chunks.len(), self.k, self.cur));
        }
        if let Some(prev) = &self.last_obs {
            if acquired == 0 && released == 0 && kind != OpKind::Construct && (prev.ab != obs.ab || prev.abim != obs.abim) {
                rep.violate("C08", "C08/accounting-changed-without-acquire-or-release", format!("ab {}->{} abim {}->{} ({})", prev.ab, obs.ab, prev.abim, obs.abim, self.cur));
            }
        }
        rep.bump("c08.checks");
        // ---- limit observer
        if obs.limit != self.limit {
            rep.violate("C06", format!("C06/limit-changed-by-{:?}", kind), format!("{:?} -> {:?}", self.limit, obs.limit));
            // the limit the *user* set stays the reference for the conservation monitor (C07): an
            // arena that quietly stores a different value must not get away with it
            rep.violate("C07", format!("C07/allocation_limit-reports-a-different-limit-than-was-set/{:?}", kind), format!("set {:?}, reported {:?} ({})", self.limit, obs.limit, self.cur));
        }
        if self.bump.min_align() != M {
            rep.violate("C06", "C06/min_align-changed", format!("{}", self.bump.min_align()));
        }

        // ---- shadow: live blocks inside held memory, inside iterated slices, intact
        if self.verify_every <= 1 || self.opno % self.verify_every == 0 || matches!(kind, OpKind::Reset | OpKind::Grow | OpKind::Shrink | OpKind::Dealloc) {
            self.verify_all(rep, &obs);
        }
        if self.trace_on {
            let mut h = 0u64;
            for (i, &(f, l)) in obs.chunks.iter().enumerate() {
                let c = &self.chunks[self.chunks.len().saturating_sub(1 + i).min(self.chunks.len().saturating_sub(1))];
                h = fnv(h, (f.wrapping_sub(c.base)) as u64);
                h = fnv(h, l as u64);
                h = fnv(h, c.size as u64);
            }
            let lim = if self.limit_mode != 0 { 0 } else { obs.limit.map(|x| x as u64).unwrap_or(u64::MAX) };
            self.tr(&[h, obs.cap as u64, obs.ab as u64, obs.abim as u64, lim]);
        }
        self.last_obs = Some(obs);
    }

    /// every live block: within one iterated slice (C10), bytes intact (C02)
    pub fn verify_all(&mut self, rep: &mut Report, obs: &Observed) {
        let mut slices: Vec<(usize, usize)> = obs.chunks.iter().map(|&(f, l)| (f, f + l)).collect();
        slices.sort();
        for (addr, lv) in self.live.iter() {
            let end = addr + lv.size;
            // containing slice
            let idx = slices.partition_point(|s| s.0 <= *addr);
            let inside = idx > 0 && end <= slices[idx - 1].1;
            if !inside {
                // inside held memory at all?
                let held = self.chunks.iter().any(|c| c.base <= *addr && end <= c.base + c.size - self.k);
                if held {
                    rep.violate("C10", "C10/live-block-not-in-any-slice", format!("block id {} [{:#x},{:#x}) not covered by chunk iteration ({})", lv.id, addr, end, self.cur));
                } else {
                    rep.violate("C01", "C01/live-block-outside-held-memory", format!("block id {} [{:#x},{:#x}) ({})", lv.id, addr, end, self.cur));
                    continue; // do not read it
                }
            }
            // contents
            let bad = unsafe {
                let got = std::slice::from_raw_parts(lv.ptr as *const u8, lv.size);
                if got == &lv.exp[..] {
                    None
                } else {
                    let i = (0..lv.size).find(|&i| got[i] != lv.exp[i]).unwrap_or(0);
                    Some((i, got[i]))
                }
            };
            if let Some((i, got)) = bad {
                if lv.tag == 1 {
                    rep.violate("C11", "C11/block-kept-by-failed-initialiser-changed", format!("block id {} byte {} is {:#x} expected {:#x} ({})", lv.id, i, got, lv.exp[i], self.cur));
                }
                rep.violate(
                    "C02",
                    format!("C02/live-block-changed/after-{}", self.cur.split('(').next().unwrap_or("")),
                    format!("block id {} size {} byte {} is {:#x} expected {:#x} ({})", lv.id, lv.size, i, got, lv.exp[i], self.cur),
                );
            }
        }
        rep.bump("shadow.verify_all");
        rep.add("shadow.blocks_verified", self.live.len() as u64);

        // ---- uniform mode: exact tiling of every slice by live extents
        if self.uniform.is_some() {
            let mut it = self.live.iter().peekable();
            for &(lo, hi) in &slices {
                let mut cur = lo;
                while let Some((a, lv)) = it.peek() {
                    let start = **a - lv.ext_off;
                    if start >= hi {
                        break;
                    }
                    if start != cur {
                        rep.violate(
                            "C10",
                            if start > cur { "C10/uniform/extra-bytes-between-objects" } else { "C10/uniform/objects-overlap" },
                            format!("slice [{:#x},{:#x}) expected object at {:#x}, found at {:#x} ({})", lo, hi, cur, start, self.cur),
                        );
                    }
                    cur = start + lv.extent;
                    it.next();
                }
                if cur != hi {
                    rep.violate(
                        "C10",
                        if cur == lo && hi > lo { "C10/uniform/slice-has-bytes-but-no-object" } else { "C10/uniform/extra-bytes-after-objects" },
                        format!("slice [{:#x},{:#x}) objects end at {:#x} ({})", lo, hi, cur, self.cur),
                    );
                }
            }
            rep.bump("c10.uniform_tilings_checked");
        }
    }

    /// Register a block handed out by the arena.  Performs the C01 / C04 checks.
    pub fn register(
        &mut self,
        rep: &mut Report,
        ptr: *mut u8,
        size: usize,
        align: usize,
        exp: Vec<u8>,
        layout: Option<(usize, usize)>,
        what: &str,
    ) -> Option<u32> {
        self.register_ext(rep, ptr, size, align, exp, layout, what, size, 0)
    }

    #[allow(clippy::too_many_arguments)]
    pub fn register_ext(
        &mut self,
        rep: &mut Report,
        ptr: *mut u8,
        size: usize,
        align: usize,
        exp: Vec<u8>,
        layout: Option<(usize, usize)>,
        what: &str,
        extent: usize,
        ext_off: usize,
    ) -> Option<u32> {
        let addr = ptr as usize;
        let id = self.next_id;
        self.next_id += 1;
        if self.poisoned {
            return None;
        }
        if addr == 0 {
            rep.violate("C01", format!("C01/null-pointer/{}", what), self.cur.clone());
            return None;
        }
        if addr % align != 0 {
            rep.violate("C04", format!("C04/misaligned-to-request/{}{}", what, if self.chunks.is_empty() { "/chunkless" } else { "" }), format!("{:#x} % {} = {} (M={}, size {}) ({})", addr, align, addr % align, M, size, self.cur));
            if matches!(what, "allocate" | "grow" | "grow_zeroed" | "shrink") {
                rep.violate("C12", format!("C12/{}/returned-block-misaligned-for-new-layout", what), format!("{:#x} % {} = {} (M={}, size {}) ({})", addr, align, addr % align, M, size, self.cur));
            }
        }
        if (addr - ext_off) % M != 0 {
            rep.violate(
                "C04",
                format!("C04/misaligned-to-min-align/{}{}{}", what, if size == 0 { "/zst" } else { "" }, if self.chunks.is_empty() { "/chunkless" } else { "" }),
                format!("{:#x} % {} = {} (size {}, align {}) ({})", addr, M, addr % M, size, align, self.cur),
            );
        }
        rep.bump("c04.pointers_checked");
        if self.chunks.is_empty() {
            rep.bump("c04.chunkless_requests");
            rep.bump(&format!("c04.chunkless_residue16_{}", addr % 16));
        }
        if size == 0 {
            self.zst_count += 1;
            rep.bump("c01.zst_checked");
            if let Some((0, al)) = layout {
                if self.zsts.len() < 8 {
                    self.zsts.push((ptr, al, id));
                }
            }
            return Some(id);
        }
        // in held memory, outside bookkeeping
        let end = addr + size;
        let inside = self.chunks.iter().any(|c| c.base <= addr && end <= c.base + c.size - self.k);
        if !inside {
            let infooter = self.chunks.iter().any(|c| c.base <= addr && end <= c.base + c.size);
            rep.violate(
                "C01",
                format!("C01/{}/{}", if infooter { "overlaps-bookkeeping" } else { "outside-held-memory" }, what),
                format!("[{:#x},{:#x}) ({})", addr, end, self.cur),
            );
            return None;
        }
        // disjoint from live blocks
        let lo_nb = self.live.range(..=addr).next_back().map(|(a, l)| (*a, l.size, l.id, l.tag));
        let hi_nb = self.live.range(addr..).next().map(|(a, l)| (*a, l.size, l.id, l.tag));
        let mut overlap = None;
        if let Some((a, s, i, t)) = lo_nb {
            if a + s > addr {
                overlap = Some((a, s, i, t));
            }
        }
        if let Some((a, s, i, t)) = hi_nb {
            if a < end {
                overlap = Some((a, s, i, t));
            }
        }
        if let Some((a, s, i, t)) = overlap {
            if t == 1 {
                rep.violate("C11", "C11/block-kept-by-failed-initialiser-handed-out-again", format!("new [{:#x},{:#x}) overlaps kept id {} [{:#x},{:#x}) ({})", addr, end, i, a, a + s, self.cur));
            }
            rep.violate("C01", format!("C01/overlaps-live-block/{}", what), format!("new [{:#x},{:#x}) overlaps live id {} [{:#x},{:#x}) ({})", addr, end, i, a, a + s, self.cur));
            if matches!(what, "allocate" | "grow" | "grow_zeroed" | "shrink") {
                rep.violate("C12", format!("C12/{}/returned-block-overlaps-live-block", what), format!("new [{:#x},{:#x}) overlaps live id {} [{:#x},{:#x}) ({})", addr, end, i, a, a + s, self.cur));
            }
            return None;
        }
        rep.bump("c01.blocks_checked");
        if self.trace_on {
            // placement relative to the chunk base (address independent)
            let ci = self.chunks.iter().position(|c| c.base <= addr && end <= c.base + c.size).unwrap_or(usize::MAX);
            let off = self.chunks.get(ci).map(|c| addr - c.base).unwrap_or(usize::MAX);
            self.tr(&[77, ci as u64, off as u64, size as u64]);
        }
        self.live.insert(addr, Live { id, ptr, size, align, extent, ext_off, exp, layout, tag: 0 });
        Some(id)
    }

    pub fn drop_arena(&mut self, rep: &mut Report) {
        if !self.alive {
            return;
        }
        self.cur = "drop".into();
        self.live.clear();
        self.zsts.clear();
        self.begin();
        unsafe { ManuallyDrop::drop(&mut self.bump) };
        let ev = self.end(rep, OpKind::Drop);
        self.alive = false;
        self.after_op(rep, OpKind::Drop, &ev);
        self.last_obs = None;
        self.tr(&[99]);
    }

    /// Move the arena to another thread and drop it there (C03 / C20: idle arenas are Send).
    pub fn drop_arena_on_other_thread(&mut self, rep: &mut Report) {
        if !self.alive {
            return;
        }
        self.cur = "drop-on-thread".into();
        self.live.clear();
        self.zsts.clear();
        let b = unsafe { ManuallyDrop::take(&mut self.bump) };
        self.alive = false;
        let ev = std::thread::spawn(move || {
            halloc::op_begin();
            drop(b);
            halloc::op_end()
        })
        .join()
        .unwrap_or_default();
        self.ingest(rep, OpKind::Drop, &ev);
        self.after_op(rep, OpKind::Drop, &ev);
        self.last_obs = None;
    }
}
