//! Minimal JSON value + writer (no external crates so the same code builds under every engine).
#![allow(dead_code)]
use std::collections::BTreeMap;
use std::fmt::Write;

#[derive(Clone, Debug)]
pub enum J {
    Null,
    Bool(bool),
    Int(i128),
    Str(String),
    Arr(Vec<J>),
    Obj(BTreeMap<String, J>),
}

impl J {
    pub fn obj() -> J {
        J::Obj(BTreeMap::new())
    }
    pub fn set(&mut self, k: &str, v: J) -> &mut J {
        if let J::Obj(m) = self {
            m.insert(k.to_string(), v);
        }
        self
    }
    pub fn s(x: impl Into<String>) -> J {
        J::Str(x.into())
    }
    pub fn i(x: impl TryInto<i128>) -> J {
        J::Int(x.try_into().ok().unwrap_or(0))
    }
    pub fn write(&self, out: &mut String) {
        match self {
            J::Null => out.push_str("null"),
            J::Bool(b) => out.push_str(if *b { "true" } else { "false" }),
            J::Int(i) => {
                let _ = write!(out, "{}", i);
            }
            J::Str(s) => {
                out.push('"');
                for c in s.chars() {
                    match c {
                        '"' => out.push_str("\\\""),
                        '\\' => out.push_str("\\\\"),
                        '\n' => out.push_str("\\n"),
                        '\r' => out.push_str("\\r"),
                        '\t' => out.push_str("\\t"),
                        c if (c as u32) < 0x20 => {
                            let _ = write!(out, "\\u{:04x}", c as u32);
                        }
                        c => out.push(c),
                    }
                }
                out.push('"');
            }
            J::Arr(a) => {
                out.push('[');
                for (i, x) in a.iter().enumerate() {
                    if i > 0 {
                        out.push(',');
                    }
                    x.write(out);
                }
                out.push(']');
            }
            J::Obj(m) => {
                out.push('{');
                for (i, (k, v)) in m.iter().enumerate() {
                    if i > 0 {
                        out.push(',');
                    }
                    J::Str(k.clone()).write(out);
                    out.push(':');
                    v.write(out);
                }
                out.push('}');
            }
        }
    }
    pub fn to_string(&self) -> String {
        let mut s = String::new();
        self.write(&mut s);
        s
    }
}
