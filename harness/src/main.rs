//! vcheck: one shard of one workload; prints a single JSON object as the last line of stdout.
mod arena;
mod gen;
mod halloc;
mod json;
mod ledger;
mod ops;
mod report;
mod rng;
mod w_arena;
mod w_c09;
mod w_c11;
mod w_c12;
mod w_c18;
mod w_c19;
mod w_c20;
mod w_c20x;
mod w_traits;
mod vecprog;
mod w_vec;
mod w_c16;
mod w_box;
mod w_str;
mod w_misc;

use json::J;
use report::Report;

#[global_allocator]
static GLOBAL: halloc::Hostile = halloc::Hostile;

#[derive(Clone, Debug)]
pub struct Args {
    pub workload: String,
    pub seed: u64,
    pub shard: u64,
    pub iters: usize,
    pub ops: usize,
    pub ma: usize,
    pub profile: String,
    pub instrumented: bool,
    pub verbose: bool,
    pub extra: Vec<(String, String)>,
}

impl Args {
    pub fn get(&self, k: &str) -> Option<&str> {
        self.extra.iter().find(|(a, _)| a == k).map(|(_, b)| b.as_str())
    }
    pub fn get_usize(&self, k: &str, d: usize) -> usize {
        self.get(k).and_then(|v| v.parse().ok()).unwrap_or(d)
    }
}

fn parse() -> Args {
    let mut a = Args {
        workload: String::new(),
        seed: 1,
        shard: 0,
        iters: 10,
        ops: 200,
        ma: 1,
        profile: "general".into(),
        instrumented: cfg!(miri),
        verbose: false,
        extra: Vec::new(),
    };
    let v: Vec<String> = std::env::args().skip(1).collect();
    let mut i = 0;
    while i < v.len() {
        let k = v[i].as_str();
        if !k.starts_with("--") {
            a.workload = k.to_string();
            i += 1;
            continue;
        }
        let val = v.get(i + 1).cloned().unwrap_or_default();
        match k {
            "--seed" => a.seed = val.parse().unwrap_or(1),
            "--shard" => a.shard = val.parse().unwrap_or(0),
            "--iters" => a.iters = val.parse().unwrap_or(10),
            "--ops" => a.ops = val.parse().unwrap_or(200),
            "--ma" => a.ma = val.parse().unwrap_or(1),
            "--profile" => a.profile = val.clone(),
            "--instrumented" => a.instrumented = val == "1",
            "--verbose" => a.verbose = val == "1",
            _ => a.extra.push((k[2..].to_string(), val.clone())),
        }
        i += 2;
    }
    a
}

fn main() {
    let args = parse();
    arena::install_panic_hook();
    let mut rep = Report::new();
    // measure the per-chunk overhead once, before any refusal schedule is armed
    halloc::Env::PLAIN.apply(1);
    let _ = arena::Sim::<1>::measure_k(&mut rep);
    halloc::start_watchdog(args.get_usize("watchdog", 150) as u64);
    let t0 = std::time::Instant::now();
    let known = std::panic::catch_unwind(std::panic::AssertUnwindSafe(|| match args.workload.as_str() {
        "arena" => {
            w_arena::run(&args, &mut rep);
            true
        }
        "c09" => {
            w_c09::run(&args, &mut rep);
            true
        }
        "c11" => {
            w_c11::run(&args, &mut rep);
            true
        }
        "c12diff" => {
            w_c12::run(&args, &mut rep);
            true
        }
        "c18" => {
            w_c18::run(&args, &mut rep);
            true
        }
        "c19" => {
            w_c19::run(&args, &mut rep);
            true
        }
        "c20" => {
            w_c20::run(&args, &mut rep);
            true
        }
        "traitsurf" => {
            w_traits::run(&args, &mut rep);
            true
        }
        "c20cross" => {
            w_c20x::run(&args, &mut rep);
            true
        }
        "c20race" => {
            w_c20::run_race(&args, &mut rep);
            true
        }
        "vecdiff" => {
            w_vec::run(&args, &mut rep);
            true
        }
        "c16" => {
            w_c16::run(&args, &mut rep);
            true
        }
        "boxdiff" => {
            w_box::run(&args, &mut rep);
            true
        }
        "strdiff" => {
            w_str::run(&args, &mut rep);
            true
        }
        "ctor_table" => {
            w_misc::run_ctor_table(&args, &mut rep);
            true
        }
        "limit_edge" => {
            w_misc::run_limit_edge(&args, &mut rep);
            true
        }
        "limit_twin" => {
            w_misc::run_limit_twin(&args, &mut rep);
            true
        }
        "uniform" => {
            w_arena::run_uniform(&args, &mut rep);
            true
        }
        _ => false,
    }));
    let known = match known {
        Ok(k) => k,
        Err(_) => {
            // a panic that escaped every catch_unwind of the harness: reported, never silent
            let msg = arena::last_panic();
            rep.inconclusive.push(format!("escaped panic: {} (at {})", msg, rep.ctx));
            eprintln!("escaped panic: {} (at {})", msg, rep.ctx);
            true
        }
    };
    let mut o = rep.to_json();
    o.set("workload", J::s(args.workload.clone()));
    o.set("seed", J::i(args.seed));
    o.set("shard", J::i(args.shard));
    o.set("ma", J::i(args.ma as u64));
    o.set("profile", J::s(args.profile.clone()));
    o.set("build", J::s(if cfg!(debug_assertions) { "debug" } else { "release" }));
    o.set("engine", J::s(if cfg!(miri) { "miri" } else { "native" }));
    o.set("wall_ms", J::i(t0.elapsed().as_millis() as u64));
    o.set("ok", J::Bool(known));
    println!("{}", o.to_string());
    if !known {
        std::process::exit(2);
    }
}
