//! C16: panic-point enumeration.  For every operation that calls back into user code, a fault-free
//! run counts the n callback invocations (predicate, key function, Clone, Default, Drop, iterator
//! next, initialiser closure) on the given input; then the operation is re-run n times with the
//! k-th invocation panicking (a fuse that fires once).  After unwinding: no id has been dropped
//! twice, every element reachable through the container is live and unique, values the caller
//! moved out are not also inside the container, a String is valid UTF-8, the arena still serves
//! requests and its neighbours are intact — and the same again after continuing to use, or
//! dropping, the container.  Leaks are allowed.
use crate::arena::last_panic;
use crate::halloc::{self, Env};
use crate::json::J;
use crate::ledger::{self, Tracked, F_CALLBACK, F_CLONE, F_DEFAULT, F_DROP, F_EQ, F_ITER};
use crate::report::{fnv, Report};
use crate::rng::Rng;
use crate::Args;
use bumpalo::boxed::Box as BBox;
use bumpalo::collections::{CollectIn, String as BString, Vec as BVec};
use bumpalo::Bump;
use std::panic::{catch_unwind, AssertUnwindSafe};

pub const SCENARIOS: &[(&str, u8)] = &[
    ("retain", F_CALLBACK),
    ("drain_filter-consume-all", F_CALLBACK),
    ("drain_filter-drop-early", F_CALLBACK),
    ("dedup_by", F_CALLBACK),
    ("dedup_by_key", F_CALLBACK),
    ("dedup", F_EQ),
    ("resize-grow", F_CLONE),
    ("resize-shrink/drop-panics", F_DROP),
    ("extend-exact-hint", F_ITER),
    ("extend-no-hint", F_ITER),
    ("extend_from_slice", F_CLONE),
    ("clone", F_CLONE),
    ("splice-exact-hint", F_ITER),
    ("splice-no-hint-longer", F_ITER),
    ("splice/drop-panics", F_DROP),
    ("from_iter_in", F_ITER),
    ("truncate/drop-panics", F_DROP),
    ("clear/drop-panics", F_DROP),
    ("drop-vec/drop-panics", F_DROP),
    ("into_iter-drop/drop-panics", F_DROP),
    ("drain-drop/drop-panics", F_DROP),
    ("alloc_slice_fill_with", F_CALLBACK),
    ("alloc_slice_fill_clone", F_CLONE),
    ("alloc_slice_fill_iter", F_ITER),
    ("alloc_slice_fill_default", F_DEFAULT),
    ("alloc_slice_clone", F_CLONE),
    ("alloc_try_with", F_CALLBACK),
    ("alloc_with", F_CALLBACK),
    ("box-drop/drop-panics", F_DROP),
    ("vec!-repeat", F_CLONE),
    ("dedup_by/drop-panics", F_DROP),
    ("retain/drop-panics", F_DROP),
    ("into_boxed_slice-drop/drop-panics", F_DROP),
    ("collect_in", F_ITER),
    ("drain_filter/drop-panics", F_DROP),
    ("extend_from_slice/drop-unwinding", F_CLONE),
    ("alloc_slice_try_fill_with", F_CALLBACK),
    ("boxed-slice-from_iter_in", F_ITER),
    ("extend_from_slice-spare-capacity", F_CLONE),
    ("resize-grow-spare-capacity", F_CLONE),
    ("extend-spare-capacity", F_ITER),
    ("insert-remove-then-clone-spare", F_CLONE),
    ("alloc_slice_fill_with/closure-allocates-and-keeps", F_CALLBACK),
    ("alloc_with/closure-allocates-and-keeps", F_CALLBACK),
    ("alloc_try_with/closure-allocates-and-keeps", F_CALLBACK),
    ("clone_from-shorter-source", F_CLONE),
    ("clone_from-longer-source", F_CLONE),
    ("clone_from/drop-panics", F_DROP),
    ("into_iter-for_each", F_CALLBACK),
    ("into_iter-fold", F_CALLBACK),
    ("into_iter-max_by_key", F_CALLBACK),
    ("into_iter-rev-try_for_each", F_CALLBACK),
    ("into_iter-skip-map-collect", F_CALLBACK),
    ("drain-for_each", F_CALLBACK),
    ("drain-rev-fold", F_CALLBACK),
    ("splice-removed-for_each", F_CALLBACK),
    ("drain_filter-fold", F_CALLBACK),
];

struct TIter {
    keys: std::vec::IntoIter<u32>,
    exact: bool,
}
impl Iterator for TIter {
    type Item = Tracked;
    fn next(&mut self) -> Option<Tracked> {
        ledger::fuse_point(F_ITER);
        self.keys.next().map(Tracked::new)
    }
    fn size_hint(&self) -> (usize, Option<usize>) {
        if self.exact {
            self.keys.size_hint()
        } else {
            (0, None)
        }
    }
}
impl ExactSizeIterator for TIter {}
fn titer(keys: &[u32], exact: bool) -> TIter {
    TIter { keys: keys.to_vec().into_iter(), exact }
}

/// run scenario `sc`; the container (if it survives) stays in `slot`, moved-out values go to `held`
fn exec<'b>(sc: usize, b: &'b Bump, slot: &mut Option<BVec<'b, Tracked>>, held: &mut Vec<Tracked>, extra: &[u32]) {
    let name = SCENARIOS[sc].0;
    match name {
        "retain" | "retain/drop-panics" => slot.as_mut().unwrap().retain(|x| {
            ledger::fuse_point(F_CALLBACK);
            x.key % 3 != 0
        }),
        "drain_filter-consume-all" | "drain_filter/drop-panics" => {
            let v = slot.as_mut().unwrap();
            for x in v.drain_filter(|x| {
                ledger::fuse_point(F_CALLBACK);
                x.key % 2 == 0
            }) {
                if name == "drain_filter/drop-panics" {
                    drop(x);
                } else {
                    held.push(x);
                }
            }
        }
        "drain_filter-drop-early" => {
            let v = slot.as_mut().unwrap();
            let mut df = v.drain_filter(|x| {
                ledger::fuse_point(F_CALLBACK);
                x.key % 2 == 0
            });
            if let Some(x) = df.next() {
                held.push(x);
            }
            drop(df);
        }
        "dedup_by" | "dedup_by/drop-panics" => slot.as_mut().unwrap().dedup_by(|a, b| {
            ledger::fuse_point(F_CALLBACK);
            a.key % 4 == b.key % 4
        }),
        "dedup_by_key" => slot.as_mut().unwrap().dedup_by_key(|a| {
            ledger::fuse_point(F_CALLBACK);
            a.key % 3
        }),
        "dedup" => slot.as_mut().unwrap().dedup(),
        "resize-grow" => {
            let v = slot.as_mut().unwrap();
            let n = v.len() + 4;
            v.resize(n, Tracked::new(77));
        }
        "resize-shrink/drop-panics" => {
            let v = slot.as_mut().unwrap();
            let n = v.len() / 3;
            v.resize(n, Tracked::new(78));
        }
        "extend-exact-hint" => slot.as_mut().unwrap().extend(titer(extra, true)),
        "extend-no-hint" => slot.as_mut().unwrap().extend(titer(extra, false)),
        "extend_from_slice" | "extend_from_slice/drop-unwinding" => {
            let src: Vec<Tracked> = extra.iter().map(|k| Tracked::new(*k)).collect();
            slot.as_mut().unwrap().extend_from_slice(&src);
            held.extend(src);
        }
        "clone" => {
            let c = slot.as_ref().unwrap().clone();
            held.extend(c.into_iter());
        }
        "clone_from-shorter-source" | "clone_from-longer-source" | "clone_from/drop-panics" => {
            // the target already holds values; the source is shorter / longer than it
            let v = slot.as_mut().unwrap();
            let n = if name == "clone_from-longer-source" { v.len() + extra.len().min(3) + 1 } else { (v.len() / 2).max(1) };
            let mut src: BVec<Tracked> = BVec::with_capacity_in(n, b);
            for i in 0..n {
                src.push(Tracked::new(extra.get(i % extra.len().max(1)).copied().unwrap_or(7) + i as u32));
            }
            v.clone_from(&src);
            held.extend(src.into_iter());
        }
        "extend_from_slice-spare-capacity" | "resize-grow-spare-capacity" | "extend-spare-capacity" | "insert-remove-then-clone-spare" => {
            // the vector already has room (and stale bit patterns of removed elements) behind its length
            let v = slot.as_mut().unwrap();
            v.reserve(extra.len() + 8);
            let keep = v.len() / 2;
            v.truncate(keep);
            match name {
                "extend_from_slice-spare-capacity" => {
                    let src: Vec<Tracked> = extra.iter().map(|k| Tracked::new(*k)).collect();
                    v.extend_from_slice(&src);
                    held.extend(src);
                }
                "resize-grow-spare-capacity" => {
                    let n = v.len() + extra.len() + 1;
                    v.resize(n, Tracked::new(66));
                }
                "extend-spare-capacity" => v.extend(titer(extra, true)),
                _ => {
                    v.insert(0, Tracked::new(5));
                    let x = v.remove(0);
                    held.push(x);
                    let c = v.clone();
                    held.extend(c.into_iter());
                }
            }
        }
        "splice-exact-hint" => {
            let v = slot.as_mut().unwrap();
            let hi = 3.min(v.len());
            let lo = 1.min(hi);
            let removed: Vec<Tracked> = v.splice(lo..hi, titer(extra, true)).collect();
            held.extend(removed);
        }
        "splice-no-hint-longer" => {
            let v = slot.as_mut().unwrap();
            let hi = 2.min(v.len());
            let lo = 1.min(hi);
            let s = v.splice(lo..hi, titer(extra, false));
            drop(s);
        }
        "splice/drop-panics" => {
            let v = slot.as_mut().unwrap();
            let hi = 4.min(v.len());
            let lo = 1.min(hi);
            let s = v.splice(lo..hi, titer(extra, true));
            drop(s);
        }
        "from_iter_in" => {
            let n = BVec::from_iter_in(titer(extra, extra.len() % 2 == 0), b);
            held.extend(n.into_iter());
        }
        "collect_in" => {
            let n: BVec<Tracked> = titer(extra, true).collect_in(b);
            held.extend(n.into_iter());
        }
        "truncate/drop-panics" => slot.as_mut().unwrap().truncate(2),
        "clear/drop-panics" => slot.as_mut().unwrap().clear(),
        "drop-vec/drop-panics" => drop(slot.take()),
        "into_iter-for_each" => {
            // the closure owns each item it is given; items it kept are the caller's
            slot.take().unwrap().into_iter().for_each(|x| {
                ledger::fuse_point(F_CALLBACK);
                held.push(x);
            });
        }
        "into_iter-fold" => {
            let n = slot.take().unwrap().into_iter().fold(0u32, |acc, x| {
                ledger::fuse_point(F_CALLBACK);
                let k = x.key;
                if k % 2 == 0 {
                    held.push(x);
                }
                acc + k
            });
            std::hint::black_box(n);
        }
        "into_iter-max_by_key" => {
            let m = slot.take().unwrap().into_iter().max_by_key(|x| {
                ledger::fuse_point(F_CALLBACK);
                x.key % 7
            });
            if let Some(x) = m {
                held.push(x);
            }
        }
        "into_iter-rev-try_for_each" => {
            let _ = slot.take().unwrap().into_iter().rev().try_for_each(|x| {
                ledger::fuse_point(F_CALLBACK);
                if x.key % 5 == 4 {
                    Err(x)
                } else {
                    held.push(x);
                    Ok(())
                }
            });
        }
        "into_iter-skip-map-collect" => {
            let kept: Vec<Tracked> = slot
                .take()
                .unwrap()
                .into_iter()
                .skip(1)
                .step_by(2)
                .map(|x| {
                    ledger::fuse_point(F_CALLBACK);
                    x
                })
                .collect();
            held.extend(kept);
        }
        "drain-for_each" => {
            let v = slot.as_mut().unwrap();
            let hi = 6.min(v.len());
            let lo = 1.min(hi);
            v.drain(lo..hi).for_each(|x| {
                ledger::fuse_point(F_CALLBACK);
                held.push(x);
            });
        }
        "drain-rev-fold" => {
            let v = slot.as_mut().unwrap();
            let hi = v.len();
            let lo = 2.min(hi);
            let n = v.drain(lo..hi).rev().fold(0u32, |acc, x| {
                ledger::fuse_point(F_CALLBACK);
                acc + x.key
            });
            std::hint::black_box(n);
        }
        "splice-removed-for_each" => {
            let v = slot.as_mut().unwrap();
            let hi = 4.min(v.len());
            let lo = 1.min(hi);
            v.splice(lo..hi, titer(extra, true)).for_each(|x| {
                ledger::fuse_point(F_CALLBACK);
                held.push(x);
            });
        }
        "drain_filter-fold" => {
            let v = slot.as_mut().unwrap();
            let n = v.drain_filter(|x| x.key % 2 == 0).fold(0u32, |acc, x| {
                ledger::fuse_point(F_CALLBACK);
                acc + x.key
            });
            std::hint::black_box(n);
        }
        "into_iter-drop/drop-panics" => {
            let mut it = slot.take().unwrap().into_iter();
            if let Some(x) = it.next() {
                held.push(x);
            }
            if let Some(x) = it.next_back() {
                held.push(x);
            }
            drop(it);
        }
        "drain-drop/drop-panics" => {
            let v = slot.as_mut().unwrap();
            let hi = 5.min(v.len());
            let lo = 1.min(hi);
            let mut d = v.drain(lo..hi);
            if let Some(x) = d.next() {
                held.push(x);
            }
            drop(d);
        }
        "into_boxed_slice-drop/drop-panics" => {
            let bx = slot.take().unwrap().into_boxed_slice();
            drop(bx);
        }
        "alloc_slice_fill_with/closure-allocates-and-keeps" => {
            // every call of the initialiser takes a block of the same arena and keeps it
            let s = b.alloc_slice_fill_with(extra.len(), |i| {
                keep_block(b, 5 + i * 7);
                ledger::fuse_point(F_CALLBACK);
                Tracked::new(extra[i])
            });
            for x in s.iter() {
                held.push(unsafe { std::ptr::read(x) });
            }
        }
        "alloc_with/closure-allocates-and-keeps" => {
            let x = b.alloc_with(|| {
                keep_block(b, 40);
                ledger::fuse_point(F_CALLBACK);
                keep_block(b, 3);
                Tracked::new(3)
            });
            held.push(unsafe { std::ptr::read(x) });
        }
        "alloc_try_with/closure-allocates-and-keeps" => {
            let r: Result<&mut Tracked, ()> = b.alloc_try_with(|| {
                keep_block(b, 600);
                ledger::fuse_point(F_CALLBACK);
                Ok(Tracked::new(4))
            });
            if let Ok(x) = r {
                held.push(unsafe { std::ptr::read(x) });
            }
        }
        "alloc_slice_fill_with" => {
            let s = b.alloc_slice_fill_with(extra.len(), |i| {
                ledger::fuse_point(F_CALLBACK);
                Tracked::new(extra[i])
            });
            // the slice does not own drop glue in the arena: take the values out so that they are
            // accounted for (bit-move, the arena never drops them)
            for x in s.iter() {
                held.push(unsafe { std::ptr::read(x) });
            }
        }
        "alloc_slice_try_fill_with" => {
            let r: Result<&mut [Tracked], ()> = b.alloc_slice_try_fill_with(extra.len(), |i| {
                ledger::fuse_point(F_CALLBACK);
                Ok(Tracked::new(extra[i]))
            });
            for x in r.unwrap().iter() {
                held.push(unsafe { std::ptr::read(x) });
            }
        }
        "alloc_slice_fill_clone" => {
            let proto = Tracked::new(5);
            let s = b.alloc_slice_fill_clone(extra.len(), &proto);
            for x in s.iter() {
                held.push(unsafe { std::ptr::read(x) });
            }
            held.push(proto);
        }
        "alloc_slice_fill_iter" => {
            let s = b.alloc_slice_fill_iter(titer(extra, true));
            for x in s.iter() {
                held.push(unsafe { std::ptr::read(x) });
            }
        }
        "alloc_slice_fill_default" => {
            let s: &mut [Tracked] = b.alloc_slice_fill_default(extra.len());
            for x in s.iter() {
                held.push(unsafe { std::ptr::read(x) });
            }
        }
        "alloc_slice_clone" => {
            let src: Vec<Tracked> = extra.iter().map(|k| Tracked::new(*k)).collect();
            let s = b.alloc_slice_clone(&src);
            for x in s.iter() {
                held.push(unsafe { std::ptr::read(x) });
            }
            held.extend(src);
        }
        "alloc_try_with" => {
            let r: Result<&mut Tracked, Tracked> = b.alloc_try_with(|| {
                ledger::fuse_point(F_CALLBACK);
                if extra.len() % 2 == 0 {
                    Ok(Tracked::new(1))
                } else {
                    Err(Tracked::new(2))
                }
            });
            match r {
                Ok(x) => held.push(unsafe { std::ptr::read(x) }),
                Err(e) => held.push(e),
            }
        }
        "alloc_with" => {
            let x = b.alloc_with(|| {
                ledger::fuse_point(F_CALLBACK);
                Tracked::new(3)
            });
            held.push(unsafe { std::ptr::read(x) });
        }
        "box-drop/drop-panics" => {
            let one = BBox::new_in(Tracked::new(9), b);
            drop(one);
            let many: BBox<[Tracked]> = BBox::from_iter_in(extra.iter().map(|k| Tracked::new(*k)), b);
            drop(many);
        }
        "boxed-slice-from_iter_in" => {
            let many: BBox<[Tracked]> = BBox::from_iter_in(titer(extra, true), b);
            drop(many);
        }
        "vec!-repeat" => {
            let e = Tracked::new(4);
            let n: BVec<Tracked> = bumpalo::vec![in b; e; extra.len()];
            held.extend(n.into_iter());
        }
        _ => unreachable!(),
    }
}

thread_local! {
    /// blocks a callback allocated in the arena and kept: (address, length, fill byte)
    static KEPT: std::cell::RefCell<Vec<(*const u8, usize, u8)>> = const { std::cell::RefCell::new(Vec::new()) };
}
fn keep_block(b: &Bump, n: usize) {
    let byte = 0xC0 | (n as u8 & 0x3f);
    let s = b.alloc_slice_fill_copy(n, byte);
    KEPT.with(|k| k.borrow_mut().push((s.as_ptr() as *const u8, n, byte)));
}

fn post_checks(rep: &mut Report, sc: usize, k: u64, phase: &str, slot: &Option<BVec<Tracked>>, held: &[Tracked], fired: bool) {
    let name = SCENARIOS[sc].0;
    let g = ledger::take_garbage_drops();
    if g > 0 {
        rep.violate("C16", format!("C16/{}/destructor-ran-on-a-slot-that-holds-no-value/{}", name, phase), format!("{} destructor call(s) on garbage (panic at callback #{})", g, k));
    }
    let d = ledger::doubles();
    if !d.is_empty() {
        rep.violate("C16", format!("C16/{}/double-drop/{}", name, phase), format!("ids {:?} dropped twice (panic at callback #{}, fired={})", d, k, fired));
    }
    let mut ids: Vec<u32> = Vec::new();
    if let Some(v) = slot {
        for x in v.iter() {
            if !ledger::is_live(x.id) {
                rep.violate("C16", format!("C16/{}/dropped-value-reachable-through-container/{}", name, phase), format!("id {} key {} (panic at callback #{})", x.id, x.key, k));
            } else if !x.check() {
                rep.violate("C16", format!("C16/{}/corrupt-value-in-container/{}", name, phase), format!("id {}", x.id));
            }
            ids.push(x.id);
        }
        if v.capacity() < v.len() {
            rep.violate("C16", format!("C16/{}/capacity-below-len/{}", name, phase), String::new());
        }
    }
    for h in held {
        if !ledger::is_live(h.id) {
            rep.violate("C16", format!("C16/{}/moved-out-value-already-dropped/{}", name, phase), format!("id {}", h.id));
        }
        ids.push(h.id);
    }
    ids.sort();
    let n = ids.len();
    ids.dedup();
    if ids.len() != n {
        rep.violate("C16", format!("C16/{}/value-reachable-twice/{}", name, phase), format!("panic at callback #{}", k));
    }
    rep.bump("c16.post_checks");
}

fn one_run(rep: &mut Report, sc: usize, keys: &[u32], extra: &[u32], fuse: Option<u64>, followup: u8) -> u64 {
    let (name, kinds) = SCENARIOS[sc];
    ledger::reset();
    let b = Bump::new();
    // neighbours
    let canary = b.alloc_slice_fill_copy(24, 0x5Au8) as *mut [u8];
    ledger::set_side(1);
    let mut slot: Option<BVec<Tracked>> = Some(BVec::from_iter_in(keys.iter().map(|k| Tracked::new(*k)), &b));
    let mut held: Vec<Tracked> = Vec::new();
    KEPT.with(|k| k.borrow_mut().clear());
    match fuse {
        Some(k) => ledger::arm(kinds, k),
        None => ledger::count_only(kinds),
    }
    let r = catch_unwind(AssertUnwindSafe(|| exec(sc, &b, &mut slot, &mut held, extra)));
    let count = ledger::fuse_count();
    let fired = ledger::fired();
    ledger::disarm();
    let k = fuse.unwrap_or(0);
    if let Err(_) = &r {
        let msg = last_panic();
        if !msg.starts_with("<fuse>") {
            rep.violate("C16", format!("C16/{}/unexpected-panic", name), format!("{} (fuse {:?})", msg, fuse));
        }
        rep.bump("c16.panics_injected");
    } else if fuse.is_some() && fired {
        rep.violate("C16", format!("C16/{}/panic-swallowed", name), format!("fuse #{} fired but the operation returned normally", k));
    }
    post_checks(rep, sc, k, "after-unwind", &slot, &held, fired);
    // arena still usable, neighbour intact
    let p = b.alloc(0xABCDu32);
    if *p != 0xABCD {
        rep.violate("C16", format!("C16/{}/arena-unusable-after-panic", name), String::new());
    }
    if unsafe { (&*canary).iter().any(|x| *x != 0x5A) } {
        rep.violate("C16", format!("C16/{}/neighbour-changed", name), String::new());
    }
    // blocks the callback took from the arena before the panic are still the caller's: later requests
    // neither land on them nor change them
    let kept: Vec<(*const u8, usize, u8)> = KEPT.with(|k| k.borrow().clone());
    if !kept.is_empty() {
        let later = b.alloc_slice_fill_copy(48, 0x11u8);
        let (lp, ll) = (later.as_ptr() as usize, later.len());
        for (kptr, kl, byte) in &kept {
            let kp = &(*kptr as usize);
            if lp < kp + kl && *kp < lp + ll {
                rep.violate("C16", format!("C16/{}/arena-handed-out-a-block-the-callback-still-owns", name), format!("[{:#x}, +{}) vs kept [{:#x}, +{}) (panic at callback #{})", lp, ll, kp, kl, k));
                break;
            }
            if unsafe { std::slice::from_raw_parts(*kptr, *kl) }.iter().any(|x| x != byte) {
                rep.violate("C16", format!("C16/{}/block-kept-by-the-callback-changed", name), format!("kept [{:#x}, +{}) (panic at callback #{})", kp, kl, k));
                break;
            }
        }
        rep.bump("c16.kept_blocks_checked");
    }
    match followup {
        0 => {
            // continue using the container
            if let Some(v) = slot.as_mut() {
                v.push(Tracked::new(99));
                let _ = v.pop().map(|x| held.push(x));
                v.retain(|x| x.key != 1);
                v.truncate(v.len().saturating_sub(1));
            }
            post_checks(rep, sc, k, "after-continued-use", &slot, &held, fired);
            drop(slot.take());
        }
        1 => drop(slot.take()),
        _ => {
            if let Some(v) = slot.take() {
                held.extend(v.into_iter());
            }
        }
    }
    post_checks(rep, sc, k, "after-dropping-container", &slot, &held, fired);
    drop(held);
    let d = ledger::doubles();
    if !d.is_empty() {
        rep.violate("C16", format!("C16/{}/double-drop/at-end", name), format!("ids {:?} (panic at callback #{})", d, k));
    }
    ledger::set_side(0);
    count
}

fn string_retain(rep: &mut Report, text: &str, fuse: Option<u64>) -> u64 {
    ledger::reset();
    let b = Bump::new();
    let mut s = BString::from_str_in(text, &b);
    match fuse {
        Some(k) => ledger::arm(F_CALLBACK, k),
        None => ledger::count_only(F_CALLBACK),
    }
    let r = catch_unwind(AssertUnwindSafe(|| {
        s.retain(|c| {
            ledger::fuse_point(F_CALLBACK);
            !(c == 'é' || c == 'b' || c == '😀')
        })
    }));
    let count = ledger::fuse_count();
    ledger::disarm();
    if r.is_err() {
        rep.bump("c16.panics_injected");
    }
    if std::str::from_utf8(s.as_bytes()).is_err() {
        rep.violate("C16", "C16/string-retain/invalid-utf8-after-panic", format!("text {:?} panic at predicate call #{:?}: bytes {:x?}", text, fuse, s.as_bytes()));
    } else {
        // still usable
        s.push('ß');
        let _ = s.pop();
        if std::str::from_utf8(s.as_bytes()).is_err() || s.capacity() < s.len() {
            rep.violate("C16", "C16/string-retain/invalid-after-continued-use", String::new());
        }
    }
    rep.bump("c16.post_checks");
    count
}

pub fn run(args: &Args, rep: &mut Report) {
    arena_install();
    Env::from_seed(args.seed, args.instrumented).apply(args.seed);
    halloc::set_always(true);
    let mut rng = Rng::new(Rng::mix(args.seed ^ 0xC16, args.shard));
    let stride = args.get_usize("stride", 1);
    let mut case = 0u64;
    let inputs: Vec<Vec<u32>> = vec![
        vec![1, 2, 3, 4, 5, 6, 7, 8],
        vec![2, 2, 6, 6, 3, 3, 4, 8, 12],
        vec![3, 6, 9],
        vec![4],
        vec![],
        vec![5, 1, 5, 5, 2, 2, 9, 9, 9, 13],
    ];
    for round in 0..args.iters.max(1) {
        for sc in 0..SCENARIOS.len() {
            for (ii, base) in inputs.iter().enumerate() {
                case += 1;
                if case % stride as u64 != args.shard % stride as u64 {
                    continue;
                }
                // later rounds use random inputs
                let keys: Vec<u32> = if round == 0 { base.clone() } else { (0..rng.below(12)).map(|_| rng.range(1, 12) as u32).collect() };
                let extra: Vec<u32> = if round == 0 { vec![10, 11, 12, 13, 14][..(ii % 6).min(5)].to_vec() } else { (0..rng.below(7)).map(|_| rng.range(1, 20) as u32).collect() };
                rep.ctx = format!("C16 scenario {} keys {:?} extra {:?}", SCENARIOS[sc].0, keys, extra);
                let n = one_run(rep, sc, &keys, &extra, None, 1);
                rep.add("c16.callback_points_enumerated", n);
                for k in 1..=n {
                    for followup in 0..3u8 {
                        rep.ctx = format!("C16 scenario {} keys {:?} extra {:?} panic-at #{} followup {}", SCENARIOS[sc].0, keys, extra, k, followup);
                        one_run(rep, sc, &keys, &extra, Some(k), followup);
                        rep.evaluations += 1;
                        rep.distinct.insert(fnv(fnv(sc as u64, k), fnv(keys.iter().fold(7, |h, x| fnv(h, *x as u64)), extra.len() as u64 * 4 + followup as u64)));
                    }
                    if rep.violations.len() >= rep.max_violations {
                        halloc::set_always(false);
                        return;
                    }
                }
                rep.bump(&format!("sc.{}", SCENARIOS[sc].0));
            }
        }
        // String::retain
        for text in ["aébcd", "ébb😀x", "b", "", "xyz", "😀😀é", "aé€b😀bz"] {
            let text: String = if round == 0 { text.to_string() } else { (0..rng.below(8)).map(|_| ['a', 'b', 'é', '€', '😀', 'z'][rng.below(6)]).collect() };
            rep.ctx = format!("C16 String::retain {:?}", text);
            let n = string_retain(rep, &text, None);
            rep.add("c16.callback_points_enumerated", n);
            for k in 1..=n {
                rep.ctx = format!("C16 String::retain {:?} panic-at #{}", text, k);
                string_retain(rep, &text, Some(k));
                rep.evaluations += 1;
                rep.distinct.insert(fnv(fnv(999, k), text.len() as u64 * 131 + text.chars().count() as u64));
            }
            rep.bump("sc.string-retain");
        }
    }
    halloc::set_always(false);
    let mut j = J::obj();
    j.set("scenarios", J::Arr(SCENARIOS.iter().map(|s| J::s(s.0)).collect()));
    j.set("enumeration", J::s("for each scenario x input: count callback invocations n fault-free, then panic at k=1..n, each with follow-ups {continue using, drop, consume}; round 0 uses 6 fixed inputs, later rounds random inputs"));
    rep.sample(j);
}

fn arena_install() {}
