//! Steered random workload generation for the arena engine.
#![allow(dead_code)]

use crate::arena::*;
use crate::halloc::{self, Refuse};
use crate::ops::*;
use crate::report::Report;

pub const N_OPS: usize = 18;
pub const OP_NAMES: [&str; N_OPS] = [
    "alloc_layout", "alloc_val", "alloc_slice", "alloc_str", "try_with", "slice_try_fill", "allocate", "deallocate", "realloc", "reset", "set_limit", "iter",
    "scribble", "reconstruct", "park", "drop_on_thread", "refuse_toggle", "huge",
];

#[derive(Clone, Debug)]
pub struct Profile {
    pub name: &'static str,
    pub w: [u32; N_OPS],
    pub max_size: usize,
    pub max_align_log2: u32,
}

impl Profile {
    pub const fn general() -> Profile {
        Profile { name: "general", w: [14, 12, 12, 4, 8, 5, 10, 8, 12, 3, 2, 3, 4, 1, 6, 0, 0, 0], max_size: 12 << 10, max_align_log2: 12 }
    }
    pub const fn contents() -> Profile {
        Profile { name: "contents", w: [8, 10, 16, 5, 8, 6, 8, 6, 16, 2, 1, 2, 10, 1, 4, 0, 0, 0], max_size: 16 << 10, max_align_log2: 8 }
    }
    pub const fn chunks() -> Profile {
        // many chunks, resets, drops, refusals: C03 / C06 / C08
        Profile { name: "chunks", w: [14, 6, 8, 2, 4, 3, 5, 3, 5, 8, 3, 3, 1, 5, 4, 1, 3, 0], max_size: 40 << 10, max_align_log2: 12 }
    }
    pub const fn limits() -> Profile {
        Profile { name: "limits", w: [20, 8, 8, 2, 4, 2, 6, 3, 5, 5, 14, 1, 0, 5, 4, 0, 0, 0], max_size: 24 << 10, max_align_log2: 6 }
    }
    pub const fn alignment() -> Profile {
        Profile { name: "alignment", w: [22, 10, 8, 2, 5, 3, 12, 10, 14, 4, 0, 1, 0, 8, 6, 0, 0, 0], max_size: 8 << 10, max_align_log2: 12 }
    }
    pub const fn allocator() -> Profile {
        Profile { name: "allocator", w: [6, 4, 4, 1, 3, 2, 20, 16, 30, 3, 1, 1, 6, 1, 6, 0, 2, 0], max_size: 12 << 10, max_align_log2: 9 }
    }
    pub const fn trywith() -> Profile {
        Profile { name: "trywith", w: [10, 4, 4, 1, 30, 16, 4, 3, 3, 3, 1, 1, 2, 2, 14, 0, 2, 0], max_size: 8 << 10, max_align_log2: 6 }
    }
    pub const fn faults() -> Profile {
        // C09: no refusal toggles (the schedule is fixed by the enumeration), huge requests included
        Profile { name: "faults", w: [16, 10, 10, 3, 8, 4, 8, 4, 8, 4, 4, 1, 1, 5, 8, 0, 0, 6], max_size: 12 << 10, max_align_log2: 8 }
    }
    pub fn by_name(n: &str) -> Profile {
        match n {
            "contents" => Self::contents(),
            "chunks" => Self::chunks(),
            "limits" => Self::limits(),
            "alignment" => Self::alignment(),
            "allocator" => Self::allocator(),
            "trywith" => Self::trywith(),
            "faults" => Self::faults(),
            _ => Self::general(),
        }
    }
}

pub fn pick_size<const M: usize>(s: &mut Sim<M>, p: &Profile) -> usize {
    let cap = s.bump.chunk_capacity();
    let chunk = s.chunks.last().map(|c| c.size).unwrap_or(512);
    let r = s.rng.below(100);
    let v = match r {
        0..=5 => 0,
        6..=11 => 1,
        12..=39 => s.rng.range(1, 64),
        40..=54 => s.rng.range(1, 600),
        55..=74 => {
            // around the remaining capacity
            let d = s.rng.below(72);
            if s.rng.chance(1, 2) {
                cap.saturating_sub(d)
            } else {
                cap + d
            }
        }
        75..=82 => {
            let d = s.rng.below(140);
            (chunk + 70).saturating_sub(d)
        }
        83..=90 => s.rng.range(4096, 3 * 4096 + 100),
        91..=96 => chunk * 2 + s.rng.below(100),
        _ => s.rng.range(1, p.max_size),
    };
    if cfg!(miri) {
        // the interpreter pays per byte touched: keep blocks small, chunk crossings still happen
        // because the first chunks are 400-2000 bytes
        return v.min(p.max_size).min(if r >= 83 { 2600 } else { 700 });
    }
    v.min(p.max_size)
}

pub fn pick_align<const M: usize>(s: &mut Sim<M>, p: &Profile) -> usize {
    let r = s.rng.below(100);
    let l = match r {
        0..=34 => 0,
        35..=49 => 3,
        50..=59 => s.rng.below(5) as u32,
        60..=79 => s.rng.below(p.max_align_log2 as usize + 1) as u32,
        80..=89 => 4,
        _ => (M.trailing_zeros() + s.rng.below(3) as u32).min(p.max_align_log2),
    };
    1usize << l
}

fn pick_flavour<const M: usize>(s: &mut Sim<M>) -> Flavour {
    let r = s.rng.below(4);
    match (r, s.force_fallible) {
        (0, None) | (0, Some(false)) | (1, Some(false)) => Flavour::Plain,
        (1, None) | (0, Some(true)) | (1, Some(true)) => Flavour::Try,
        (2, None) | (2, Some(false)) | (3, Some(false)) => Flavour::With,
        _ => Flavour::TryWith,
    }
}

/// one random step; returns the op kind index
pub fn step<const M: usize>(s: &mut Sim<M>, rep: &mut Report, p: &Profile) -> (usize, Outcome) {
    if s.poisoned {
        return (0, Outcome::Ok);
    }
    let k = s.rng.weighted(&p.w);
    rep.bump(&format!("op.{}", OP_NAMES[k]));
    let out = match k {
        0 => {
            let size = pick_size(s, p);
            let align = pick_align(s, p);
            let f = fl(s);
            s.op_alloc_layout(rep, size, align, f)
        }
        1 => {
            let ty = s.rng.below(NTYPES);
            let fl = pick_flavour(s);
            s.op_alloc_val(rep, ty, fl)
        }
        2 => {
            let ty = s.rng.below(NTYPES);
            let (esz, _) = type_layout(ty);
            let bytes = pick_size(s, p);
            let len = if esz == 0 { s.rng.below(40) } else { bytes / esz };
            let kind = s.rng.below(8) as u8;
            let f = fl(s);
            if kind == 7 {
                let wide = s.rng.chance(1, 2);
                let n = bytes / if wide { 24 } else { 8 };
                s.op_alloc_slice_default(rep, n, wide, f)
            } else {
                s.op_alloc_slice(rep, ty, len, kind, f)
            }
        }
        3 => {
            let len = pick_size(s, p).min(4096);
            let f = fl(s);
            s.op_alloc_str(rep, len, f)
        }
        4 => {
            let ty = *s.rng.pick(&[0usize, 3, 6, 9, 4, 7, 13, 10, 2]);
            let f = fl(s);
            let ok = s.rng.chance(2, 5);
            let inner = *s.rng.pick(&[0u8, 0, 0, 1, 2]);
            s.op_try_with(rep, ty, f, ok, inner, true)
        }
        5 => {
            let ty = *s.rng.pick(&[0usize, 2, 3, 6, 4, 10]);
            let (esz, _) = type_layout(ty);
            let bytes = pick_size(s, p).min(8192);
            let len = if esz == 0 { s.rng.below(10) } else { bytes / esz };
            let fail = if len > 0 && s.rng.chance(3, 5) { Some(s.rng.below(len)) } else { None };
            let it = s.rng.chance(1, 2);
            s.slice_inner = *s.rng.pick(&[0u8, 0, 1, 2]);
            // an allocating initialiser makes one arena call per element: keep those slices short
            let (len, fail) = if s.slice_inner != 0 && len > 200 { (200, fail.map(|f| f % 200)) } else { (len, fail) };
            let o = s.op_slice_try_fill(rep, ty, len, fail, it, true);
            s.slice_inner = 0;
            o
        }
        6 => {
            let size = pick_size(s, p);
            let align = pick_align(s, p);
            let z = s.rng.chance(1, 5);
            s.op_allocate(rep, size, align, z)
        }
        7 if !s.zsts.is_empty() && s.rng.chance(1, 8) => {
            s.op_deallocate_zst(rep);
            Outcome::Ok
        }
        7 => {
            let last = s.rng.chance(1, 2);
            if let Some(a) = s.pick_layout_block(last) {
                s.op_deallocate(rep, a);
            }
            Outcome::Ok
        }
        8 if !s.zsts.is_empty() && s.rng.chance(1, 6) => {
            let new_size = match s.rng.below(4) {
                0 => 0,
                1 => s.rng.range(1, 40),
                _ => pick_size(s, p).min(2000),
            };
            let new_align = pick_align(s, p).min(64);
            let z = s.rng.chance(1, 2);
            s.op_realloc_zst(rep, new_size, new_align, z)
        }
        8 => {
            let last = s.rng.chance(3, 5);
            if let Some(a) = s.pick_layout_block(last) {
                let (osz, oal) = s.live[&a].layout.unwrap();
                let cap = s.bump.chunk_capacity();
                let new_size = match s.rng.below(10) {
                    0 => 0,
                    1 => osz,
                    2 => osz / 2,
                    3 => (osz + 1) / 2,
                    4 => osz.saturating_sub(s.rng.below(17)),
                    5 => {
                        // small growth; every other time exactly up to the size padded to the block's alignment
                        if s.rng.chance(1, 2) && oal > 1 && osz % oal != 0 {
                            (osz / oal + 1) * oal
                        } else {
                            osz + s.rng.below(17)
                        }
                    }
                    6 => osz * 2,
                    7 => osz + cap.saturating_sub(if s.rng.chance(1, 3) { 0 } else { s.rng.below(40) }),
                    8 => osz + cap + s.rng.below(40),
                    _ => pick_size(s, p),
                }
                .min(p.max_size * 2);
                let new_align = match s.rng.below(6) {
                    0 => (oal * 2).min(1 << p.max_align_log2),
                    1 => (oal / 2).max(1),
                    2 => pick_align(s, p),
                    _ => oal,
                };
                let z = s.rng.chance(1, 3);
                s.op_realloc(rep, a, new_size, new_align, z)
            } else {
                Outcome::Ok
            }
        }
        9 => {
            let probe = s.rng.chance(1, 2);
            s.op_reset(rep, probe);
            Outcome::Ok
        }
        10 => {
            let held = s.held_usable();
            let chunk = s.chunks.last().map(|c| c.size).unwrap_or(512);
            let l = match s.rng.below(12) {
                0 => None,
                1 => Some(0),
                2 => Some(1),
                3 => Some(63),
                4 => Some(64),
                5 => Some(held.saturating_sub(1)),
                6 => Some(held),
                7 => Some(held + 1),
                8 => Some(held + chunk * 2 - s.rng.below(130).min(chunk)),
                9 => Some(held + chunk * 2 + s.rng.below(130)),
                10 => Some(usize::MAX),
                _ => Some(s.rng.range(0, 1 << 20)),
            };
            s.op_set_limit(rep, l);
            Outcome::Ok
        }
        11 => {
            s.op_iter(rep);
            Outcome::Ok
        }
        12 => {
            s.op_scribble_block(rep);
            Outcome::Ok
        }
        13 => {
            let cap = match s.rng.below(8) {
                0 => None,
                1 => Some(0),
                2 => Some(1),
                3 => Some(s.rng.range(1, 600)),
                4 => Some(4096 - s.rng.below(130)),
                5 => Some(4096 + s.rng.below(130)),
                6 => Some((1usize << s.rng.range(5, 16)) + s.rng.below(3) - 1),
                _ => Some(s.rng.range(1, 70000)),
            };
            let f = fl(s);
            if s.reconstruct(rep, cap, f) {
                Outcome::Ok
            } else if f {
                Outcome::Err
            } else {
                Outcome::Panic
            }
        }
        14 => {
            // park the finger so that exactly r bytes remain, r in 0..=70
            let cap = s.bump.chunk_capacity();
            let r = s.rng.below(71);
            if cap > r && cap <= (if cfg!(miri) { 2048 } else { 96 << 10 }) {
                let want = cap - r;
                s.op_alloc_layout(rep, want, 1, true)
            } else {
                Outcome::Ok
            }
        }
        15 => {
            s.drop_arena_on_other_thread(rep);
            s.reconstruct(rep, None, false);
            Outcome::Ok
        }
        17 => {
            let f = fl(s);
            let which = s.rng.below(10) as u8;
            let n = pick_huge(s);
            s.op_huge(rep, which, n, f)
        }
        _ => {
            // refusal environment toggles
            let r = match s.rng.below(6) {
                0 | 1 => Refuse::None,
                2 => Refuse::Kth(s.rng.range(1, 3) as u64),
                3 => Refuse::Above(s.rng.range(200, 20000)),
                4 => Refuse::Prob(100),
                _ => Refuse::All,
            };
            halloc::set_refuse(r);
            Outcome::Ok
        }
    };
    (k, out)
}

/// fallible or infallible flavour: a coin, unless the history is forced to one side (twin runs)
fn fl<const M: usize>(s: &mut Sim<M>) -> bool {
    let c = s.rng.chance(1, 2);
    s.force_fallible.unwrap_or(c)
}

/// sizes on both sides of every overflow boundary
pub fn pick_huge<const M: usize>(s: &mut Sim<M>) -> usize {
    let d = s.rng.below(40);
    match s.rng.below(10) {
        0 => usize::MAX - d,
        1 => (isize::MAX as usize) + 1 + d,
        2 => (isize::MAX as usize) - d,
        3 => (isize::MAX as usize) - 4096 - d,
        4 => (isize::MAX as usize) / 2 + d,
        5 => (1usize << 40) + d,
        6 => (1usize << 32) + d - 20,
        7 => (256usize << 20) + d,
        8 => (65usize << 20) + d,
        _ => usize::MAX / 8 + d - 20,
    }
}

/// Uniform histories for the exact-image clause of C10: every object has alignment `a` (>= M) and a
/// size that is a multiple of `a`.
pub fn step_uniform<const M: usize>(s: &mut Sim<M>, rep: &mut Report, a: usize) -> usize {
    let ty = match a {
        1 => 0usize,
        2 => 1,
        4 => 2,
        8 => 3,
        _ => 4,
    };
    let r = s.rng.below(100);
    let cap = s.bump.chunk_capacity();
    let around = |s: &mut Sim<M>| -> usize {
        // a byte count near the remaining capacity (forces chunk crossings), multiple of a
        let d = s.rng.below(5) * a;
        let v = if s.rng.chance(1, 2) { cap.saturating_sub(d) } else { cap + d };
        (v / a * a).min(if cfg!(miri) { 1200 } else { 32 << 10 })
    };
    match r {
        0..=19 => {
            let fl = pick_flavour(s);
            rep.bump("op.u.alloc_val");
            s.op_alloc_val(rep, ty, fl);
        }
        20..=39 => {
            let n = if s.rng.chance(1, 3) { around(s) / a } else { s.rng.range(1, 40) };
            let kind = s.rng.below(6) as u8;
            let f = s.rng.chance(1, 2);
            rep.bump("op.u.alloc_slice");
            s.op_alloc_slice(rep, ty, n, kind, f);
        }
        40..=54 => {
            let n = if s.rng.chance(1, 3) { around(s) } else { s.rng.range(1, 30) * a };
            let f = s.rng.chance(1, 2);
            rep.bump("op.u.alloc_layout");
            if n > 0 {
                s.op_alloc_layout(rep, n, a, f);
            }
        }
        55..=74 => {
            // failed (or successful) fallible initialiser, slot alignment == a only when the
            // Result<T,Tracked> slot has alignment a; Tracked has alignment 8, so use it for a >= 8.
            let f = s.rng.chance(1, 2);
            let ok = s.rng.chance(1, 4);
            rep.bump("op.u.try_with");
            if a == 8 && !ok && s.rng.chance(1, 3) {
                // a failing initialiser whose success type is zero-sized while the Result slot is not
                s.op_try_with(rep, 10, f, false, 0, false);
            } else if a == 8 {
                s.op_try_with(rep, 3, f, ok, 0, false);
            } else if a == 16 {
                s.op_try_with(rep, 4, f, ok, 0, false);
            } else {
                // a < 8: use the slice try-fill flavour instead (slot alignment == element alignment)
                let n = s.rng.range(1, 20);
                let fail = if ok { None } else { Some(s.rng.below(n)) };
                s.op_slice_try_fill(rep, ty, n, fail, f, false);
            }
        }
        75..=86 => {
            let n = if s.rng.chance(1, 3) { (around(s) / a).max(1) } else { s.rng.range(1, 30) };
            let fail = if s.rng.chance(3, 4) { Some(s.rng.below(n)) } else { None };
            let it = s.rng.chance(1, 2);
            rep.bump("op.u.slice_try_fill");
            s.op_slice_try_fill(rep, ty, n, fail, it, false);
        }
        87..=91 => {
            rep.bump("op.u.reset");
            s.op_reset(rep, false);
        }
        92..=95 => {
            rep.bump("op.u.iter");
            s.op_iter(rep);
        }
        96..=97 => {
            let cap = Some(s.rng.range(0, 3000));
            let f = s.rng.chance(1, 2);
            rep.bump("op.u.reconstruct");
            s.reconstruct(rep, cap, f);
        }
        _ => {
            // park near the end of the chunk so that the next slot forces a new chunk
            let keep = s.rng.below(3) * a;
            let cap = cap / a * a;
            rep.bump("op.u.park");
            if cap > keep {
                s.op_alloc_layout(rep, cap - keep, a, true);
            }
        }
    }
    0
}
