//! Small dedicated workloads: constructor panic table (C04), limit twin runs (C07).
use crate::arena::*;
use crate::gen::{self, Profile};
use crate::halloc::{self, Env};
use crate::json::J;
use crate::report::Report;
use crate::rng::Rng;
use crate::Args;
use bumpalo::Bump;
use std::alloc::Layout;
use std::panic::{catch_unwind, AssertUnwindSafe};

fn ctor_case<const M: usize>(rep: &mut Report, valid: bool) {
    let cases: [(&str, Box<dyn Fn() -> bool>); 9] = [
        ("Default::default", Box::new(|| { let _b: Bump<M> = Default::default(); true })),
        ("derived Default of a holder", Box::new(|| {
            #[derive(Default)]
            struct Holder<const N: usize> {
                _a: Bump<N>,
                _n: u32,
            }
            let _h: Holder<M> = Default::default();
            true
        })),
        ("with_min_align_and_capacity(1<<20)", Box::new(|| { let _b = Bump::<M>::with_min_align_and_capacity(1 << 20); true })),
        ("try_with_min_align_and_capacity(1<<20)", Box::new(|| Bump::<M>::try_with_min_align_and_capacity(1 << 20).is_ok())),
        ("with_min_align", Box::new(|| { let _b = Bump::<M>::with_min_align(); true })),
        ("with_min_align_and_capacity(0)", Box::new(|| { let _b = Bump::<M>::with_min_align_and_capacity(0); true })),
        ("with_min_align_and_capacity(100)", Box::new(|| { let _b = Bump::<M>::with_min_align_and_capacity(100); true })),
        ("try_with_min_align_and_capacity(0)", Box::new(|| Bump::<M>::try_with_min_align_and_capacity(0).is_ok())),
        ("try_with_min_align_and_capacity(100)", Box::new(|| Bump::<M>::try_with_min_align_and_capacity(100).is_ok())),
    ];
    for (name, f) in cases.iter() {
        halloc::op_begin();
        let r = catch_unwind(AssertUnwindSafe(|| f()));
        let evs = halloc::op_end();
        // C03: whether the constructor is refused or the arena it built has been dropped again,
        // every block it obtained has been given back, with the layout it was requested with
        let mut live: Vec<(usize, usize, usize)> = Vec::new();
        for e in evs.iter().filter(|e| e.cand) {
            if e.kind == halloc::EV_ALLOC && e.res == halloc::RES_OK {
                live.push((e.ptr, e.size, e.align));
            } else if e.kind == halloc::EV_DEALLOC {
                match live.iter().position(|b| b.0 == e.ptr) {
                    Some(i) => {
                        let b = live.remove(i);
                        if (b.1, b.2) != (e.size, e.align) {
                            rep.violate("C03", "C03/dealloc/layout-differs-from-request", format!("constructor {} M={}: requested ({}, {}), returned with ({}, {})", name, M, b.1, b.2, e.size, e.align));
                        }
                    }
                    None => {}
                }
            }
        }
        rep.add("c03.constructor_blocks_followed", evs.iter().filter(|e| e.cand && e.kind == halloc::EV_ALLOC && e.res == halloc::RES_OK).count() as u64);
        rep.bump("c03.constructor_calls_checked_for_leaks");
        if !live.is_empty() {
            let what = if r.is_err() { "refused-constructor-keeps-memory" } else { "memory-still-held-after-drop" };
            rep.violate("C03", format!("C03/ctor/{}", what), format!("{} M={}: {} block(s) obtained from the global allocator and never given back, first (size {}, align {})", name, M, live.len(), live[0].1, live[0].2));
        }
        rep.evaluations += 1;
        rep.distinct.insert(crate::report::fnv(M as u64, name.len() as u64 * 131 + name.as_bytes()[0] as u64 + name.as_bytes()[name.len() - 2] as u64 * 7));
        match (valid, r) {
            (true, Ok(true)) => rep.bump("c04.ctor_valid_accepted"),
            (true, Ok(false)) => rep.violate("C04", format!("C04/ctor/valid-min-align-failed/{}", name), format!("M={}", M)),
            (true, Err(_)) => rep.violate("C04", format!("C04/ctor/valid-min-align-panicked/{}", name), format!("M={} {}", M, last_panic())),
            (false, Ok(_)) => rep.violate("C04", format!("C04/ctor/invalid-min-align-accepted/{}", name), format!("M={}", M)),
            (false, Err(_)) => {
                let msg = last_panic();
                if !msg.contains("MIN_ALIGN") {
                    rep.notes.push(format!("invalid M={} refused with unexpected message: {}", M, msg));
                }
                rep.bump("c04.ctor_invalid_refused");
            }
        }
    }
    if valid {
        // first requests on a chunk-less arena: ZSTs and over-aligned requests
        for align_log in 0..=12u32 {
            for size in [0usize, 1, 3] {
                for fallible in [false, true] {
                    let b = Bump::<M>::with_min_align();
                    let l = Layout::from_size_align(size, 1 << align_log).unwrap();
                    let r = catch_unwind(AssertUnwindSafe(|| if fallible { b.try_alloc_layout(l).ok() } else { Some(b.alloc_layout(l)) }));
                    rep.evaluations += 1;
                    match r {
                        Ok(Some(p)) => {
                            let a = p.as_ptr() as usize;
                            rep.bump("c04.pointers_checked");
                            rep.bump("c04.chunkless_requests");
                            if size == 0 {
                                rep.bump(&format!("c04.chunkless_zst_residue16_{}", a % 16));
                            }
                            if a % (1 << align_log) != 0 {
                                rep.violate("C04", "C04/misaligned-to-request/alloc_layout/chunkless", format!("{:#x} align {} size {} M={}", a, 1u32 << align_log, size, M));
                            }
                            if a % M != 0 {
                                rep.violate("C04", format!("C04/misaligned-to-min-align/alloc_layout{}/chunkless", if size == 0 { "/zst" } else { "" }), format!("{:#x} M={} size {} align {}", a, M, size, 1u32 << align_log));
                            }
                        }
                        Ok(None) => rep.violate("C09", "C09/fitting-request-failed/fresh-arena", format!("size {} align {}", size, 1u32 << align_log)),
                        Err(_) => {
                            let msg = last_panic();
                            let p = if fallible { "C09" } else { "C04" };
                            rep.violate(p, format!("{}/unexpected-panic/alloc_layout/chunkless/{}", p, normalise_msg(&msg)), format!("M={} size {} align {}: {}", M, size, 1u32 << align_log, msg));
                        }
                    }
                }
            }
        }
    }
}

pub fn run_ctor_table(_args: &Args, rep: &mut Report) {
    Env::PLAIN.apply(1);
    ctor_case::<0>(rep, false);
    ctor_case::<1>(rep, true);
    ctor_case::<2>(rep, true);
    ctor_case::<3>(rep, false);
    ctor_case::<4>(rep, true);
    ctor_case::<5>(rep, false);
    ctor_case::<8>(rep, true);
    ctor_case::<12>(rep, false);
    ctor_case::<16>(rep, true);
    ctor_case::<24>(rep, false);
    ctor_case::<32>(rep, false);
    ctor_case::<64>(rep, false);
    ctor_case::<4096>(rep, false);
    let mut j = J::obj();
    j.set("table", J::s("MIN_ALIGN in {0,1,2,3,4,5,8,12,16,24,32,64,4096} x 9 constructors (with_min_align, 4 capacity forms, 2 at 1 MiB, Default::default, a derived Default holder); valid M: 13 alignments x 3 sizes x fallible/infallible first request on a chunk-less arena"));
    rep.sample(j);
}

/// C07 "an arena with no limit behaves as if the feature did not exist": the same history with
/// set_allocation_limit(None / Some(usize::MAX)) sprinkled in vs with those calls left out.
pub fn run_limit_twin(args: &Args, rep: &mut Report) {
    crate::dispatch_ma!(args.ma, limit_twin_m, args, rep)
}

fn limit_twin_m<const M: usize>(args: &Args, rep: &mut Report) {
    let mut top = Rng::new(Rng::mix(args.seed ^ 0x77, args.shard));
    let profile = Profile::limits();
    for it in 0..args.iters {
        let hseed = top.next();
        let mut traces: Vec<(Vec<u64>, Vec<String>)> = Vec::new();
        for mode in [2u8, 1u8] {
            let env = Env { skew: 3, junk: !cfg!(miri), scribble: !cfg!(miri), quarantine: false, cap: 64 << 20 };
            env.apply(hseed);
            // the same refusal threshold for both twins (half of the histories): a limit-free arena must
            // treat a refusing allocator exactly like one whose limit is None / usize::MAX
            let thresholds = [usize::MAX, usize::MAX, 100, 256, 400, 495, 496, 1008, 2032, 5000];
            let t = thresholds[(hseed >> 33) as usize % thresholds.len()];
            halloc::set_refuse(if t == usize::MAX { halloc::Refuse::None } else { halloc::Refuse::Above(t) });
            crate::ledger::reset();
            rep.ctx = format!("limit-twin history {} mode {} refuse-above {} (seed {} shard {} M {})", it, mode, t, args.seed, args.shard, M);
            let mut s = match Sim::<M>::new(hseed, rep, None, false) {
                Some(s) => s,
                None => continue,
            };
            s.trace_on = true;
            s.limit_mode = mode;
            for _ in 0..args.ops {
                gen::step(&mut s, rep, &profile);
            }
            s.drop_arena(rep);
            halloc::set_refuse(halloc::Refuse::None);
            traces.push((std::mem::take(&mut s.trace), std::mem::take(&mut s.oplog)));
        }
        rep.evaluations += 1;
        if traces.len() == 2 {
            let (a, b) = (&traces[0], &traces[1]);
            rep.distinct.insert(a.0.iter().fold(0, |h, x| crate::report::fnv(h, *x)));
            rep.add("c07.twin_trace_entries_compared", a.0.len() as u64);
            if a.0 != b.0 {
                let i = (0..a.0.len().min(b.0.len())).find(|&i| a.0[i] != b.0[i]).unwrap_or(a.0.len().min(b.0.len()));
                rep.violate(
                    "C07",
                    "C07/no-limit-twin-traces-differ",
                    format!("first difference at trace entry {}: without limit calls `{}`, with None/usize::MAX limits `{}`", i, a.1.get(i).cloned().unwrap_or_default(), b.1.get(i).cloned().unwrap_or_default()),
                );
            }
            rep.bump("c07.twin_histories");
        }
    }
    let mut j = J::obj();
    j.set("twin", J::s("history run twice from the same seed: limit calls skipped vs limit calls restricted to None/Some(usize::MAX); per-call traces (outcome, placement offset, chunk sizes, capacity, accounting) must be identical"));
    rep.sample(j);
    let _ = halloc::totals();
}


/// C18 "doubling while the global allocator and the limit permit" at the edge: the same history is run
/// without a limit and then with a limit placed exactly at (or up to a few footers above) what the
/// i-th chunk acquisition of the unlimited run needed.  Up to the first acquisition the limit really
/// forbids, the limited run must obtain the same chunks: a limit that permits a chunk must not make
/// the arena settle for a smaller one.
pub fn run_limit_edge(args: &Args, rep: &mut Report) {
    crate::dispatch_ma!(args.ma, limit_edge_m, args, rep)
}

fn limit_edge_m<const M: usize>(args: &Args, rep: &mut Report) {
    let mut top = Rng::new(Rng::mix(args.seed ^ 0x1ED6, args.shard));
    let profile = Profile { name: "edge", w: [22, 8, 10, 2, 4, 2, 4, 2, 5, 2, 0, 1, 0, 0, 5, 0, 0, 0], max_size: 12 << 10, max_align_log2: 5 };
    let run = |hseed: u64, limit: Option<usize>, rep: &mut Report, ctx: &str| -> Option<Vec<(usize, usize)>> {
        let env = Env { skew: 3, junk: !cfg!(miri), scribble: !cfg!(miri), quarantine: false, cap: 64 << 20 };
        env.apply(hseed);
        crate::ledger::reset();
        rep.ctx = ctx.to_string();
        let mut s = Sim::<M>::new(hseed, rep, None, false)?;
        if let Some(l) = limit {
            s.op_set_limit(rep, Some(l));
        }
        for _ in 0..args.ops {
            gen::step(&mut s, rep, &profile);
        }
        s.drop_arena(rep);
        Some(std::mem::take(&mut s.acq_log))
    };
    for it in 0..args.iters {
        let hseed = top.next();
        let ctx = format!("limit-edge history {} (seed {} shard {} M {})", it, args.seed, args.shard, M);
        let free = match run(hseed, None, rep, &format!("{} unlimited", ctx)) {
            Some(l) => l,
            None => continue,
        };
        rep.evaluations += 1;
        if free.len() < 2 {
            continue;
        }
        let mut picks: Vec<usize> = (1..free.len()).collect();
        while picks.len() > 5 {
            let i = top.below(picks.len());
            picks.swap_remove(i);
        }
        for i in picks {
            let (held, usable) = free[i];
            for delta in [0usize, top.below(48 * (i + 1)), 48 * (i + 1) - 1] {
                let limit = held + usable + delta;
                let lim = match run(hseed, Some(limit), rep, &format!("{} limit {} (= acquisition {} of the unlimited run + {})", ctx, limit, i, delta)) {
                    Some(l) => l,
                    None => continue,
                };
                rep.evaluations += 1;
                rep.distinct.insert(crate::report::fnv(hseed, (i as u64) << 32 | delta as u64));
                for j in 0..free.len() {
                    if free[j].0 + free[j].1 > limit {
                        break; // from here on the limit really forbids what the unlimited run did
                    }
                    rep.bump("c18.limit_edge_acquisitions_compared");
                    match lim.get(j) {
                        Some(&(h, u)) if (h, u) == free[j] => {}
                        Some(&(h, u)) => {
                            rep.violate(
                                "C18",
                                "C18/chunk-the-limit-permits-was-not-taken",
                                format!("acquisition {}: without a limit the arena took a chunk of {} usable bytes while holding {}; with limit {} (which permits it) it held {} and took {}", j, free[j].1, free[j].0, limit, h, u),
                            );
                            break;
                        }
                        None => {
                            rep.violate("C18", "C18/chunk-the-limit-permits-was-not-taken/request-failed-instead", format!("acquisition {} ({} usable while holding {}) never happened under limit {}", j, free[j].1, free[j].0, limit));
                            break;
                        }
                    }
                }
                rep.bump("c18.limit_edge_runs");
                if rep.violations.len() >= rep.max_violations {
                    return;
                }
            }
        }
    }
}
