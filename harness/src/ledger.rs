//! Drop ledger: values with unique ids whose destructor reports to a per-thread ledger.
//! A second drop of the same id is recorded (and the heap box is not freed a second time, so a
//! native process survives to report); under Miri / ASan a double drop that bypasses the ledger
//! (a stale bit copy dropped after the ledger was reset) is still a hard error thanks to the box.
#![allow(dead_code)]

use crate::halloc;
use std::cell::{Cell, RefCell};
use std::mem::ManuallyDrop;

#[derive(Clone, Copy, PartialEq, Eq, Debug)]
pub enum St {
    Live,
    Dropped,
}

pub struct LedgerState {
    pub st: Vec<St>,
    /// which side minted the id (0 = harness, 1 = bumpalo container, 2 = std reference)
    pub side: Vec<u8>,
    pub keys: Vec<u32>,
    /// ids dropped more than once (id, times)
    pub double: Vec<u32>,
    /// log of drops in order
    pub log: Vec<u32>,
    /// drops of ids never minted in this epoch
    pub unknown: Vec<u32>,
}

thread_local! {
    static LEDGER: RefCell<LedgerState> = RefCell::new(LedgerState { st: Vec::new(), side: Vec::new(), keys: Vec::new(), double: Vec::new(), log: Vec::new(), unknown: Vec::new() });
    static SIDE: Cell<u8> = const { Cell::new(0) };
    /// fuse: panic when this counter reaches zero at a fuse point of the selected kind
    static FUSE: Cell<i64> = const { Cell::new(-1) };
    static FUSE_KIND: Cell<u8> = const { Cell::new(0) };
    static FUSE_COUNT: Cell<u64> = const { Cell::new(0) };
    static EPOCH: Cell<u32> = const { Cell::new(1) };
}

thread_local! {
    static GARBAGE_DROPS: Cell<u64> = const { Cell::new(0) };
}
/// destructor calls on bit patterns that never were a Tracked (since the last call)
pub fn take_garbage_drops() -> u64 {
    GARBAGE_DROPS.with(|g| g.replace(0))
}

pub const F_CLONE: u8 = 1;
pub const F_DROP: u8 = 2;
pub const F_CALLBACK: u8 = 4;
pub const F_DEFAULT: u8 = 8;
pub const F_ITER: u8 = 16;
pub const F_EQ: u8 = 32;

/// Reset the ledger (new program).
pub fn reset() {
    let _p = halloc::pause();
    LEDGER.with(|l| {
        let mut l = l.borrow_mut();
        l.st.clear();
        l.side.clear();
        l.keys.clear();
        l.double.clear();
        l.log.clear();
        l.unknown.clear();
    });
    EPOCH.with(|e| e.set(e.get().wrapping_add(1)));
    disarm();
}

pub fn epoch() -> u32 {
    EPOCH.with(|e| e.get())
}

fn mint(key: u32) -> u32 {
    let _p = halloc::pause();
    let side = SIDE.with(|s| s.get());
    LEDGER.with(|l| {
        let mut l = l.borrow_mut();
        l.st.push(St::Live);
        l.side.push(side);
        l.keys.push(key);
        (l.st.len() - 1) as u32
    })
}

/// values minted from now on belong to this side (1 = bumpalo program, 2 = std reference program)
pub fn set_side(s: u8) {
    SIDE.with(|c| c.set(s));
}
pub fn side_of(id: u32) -> u8 {
    LEDGER.with(|l| l.borrow().side.get(id as usize).copied().unwrap_or(0))
}
pub fn key_of(id: u32) -> u32 {
    LEDGER.with(|l| l.borrow().keys.get(id as usize).copied().unwrap_or(0))
}
/// keys dropped since `from`, per side, sorted
pub fn dropped_keys_since(from: usize) -> (Vec<u32>, Vec<u32>) {
    let _p = halloc::pause();
    LEDGER.with(|l| {
        let l = l.borrow();
        let mut a = Vec::new();
        let mut b = Vec::new();
        for &id in &l.log[from..] {
            match l.side.get(id as usize).copied().unwrap_or(0) {
                1 => a.push(l.keys[id as usize]),
                2 => b.push(l.keys[id as usize]),
                _ => {}
            }
        }
        a.sort();
        b.sort();
        (a, b)
    })
}
/// ids of one side that are still live
pub fn live_ids_of_side(side: u8) -> Vec<u32> {
    let _p = halloc::pause();
    LEDGER.with(|l| {
        let l = l.borrow();
        (0..l.st.len()).filter(|&i| l.st[i] == St::Live && l.side[i] == side).map(|i| i as u32).collect()
    })
}

pub fn minted() -> u32 {
    LEDGER.with(|l| l.borrow().st.len() as u32)
}

pub fn state(id: u32) -> Option<St> {
    LEDGER.with(|l| l.borrow().st.get(id as usize).copied())
}

pub fn is_live(id: u32) -> bool {
    state(id) == Some(St::Live)
}

pub fn log_len() -> usize {
    LEDGER.with(|l| l.borrow().log.len())
}

/// drops recorded since position `from` in the log
pub fn drops_since(from: usize) -> Vec<u32> {
    let _p = halloc::pause();
    LEDGER.with(|l| l.borrow().log[from..].to_vec())
}

pub fn doubles() -> Vec<u32> {
    let _p = halloc::pause();
    LEDGER.with(|l| l.borrow().double.clone())
}
pub fn unknowns() -> Vec<u32> {
    let _p = halloc::pause();
    LEDGER.with(|l| l.borrow().unknown.clone())
}

pub fn live_ids() -> Vec<u32> {
    let _p = halloc::pause();
    LEDGER.with(|l| {
        l.borrow().st.iter().enumerate().filter(|(_, s)| **s == St::Live).map(|(i, _)| i as u32).collect()
    })
}

// ------------------------------------------------------------------------------------------
// fuses

/// Arm: the `n`-th (1-based) fuse point whose kind is in `kinds` panics.  Fires once.
pub fn arm(kinds: u8, n: u64) {
    FUSE_KIND.with(|k| k.set(kinds));
    FUSE.with(|f| f.set(n as i64));
    FUSE_COUNT.with(|c| c.set(0));
}
/// Count-only mode: counts fuse points of the given kinds without ever firing.
pub fn count_only(kinds: u8) {
    FUSE_KIND.with(|k| k.set(kinds));
    FUSE.with(|f| f.set(-1));
    FUSE_COUNT.with(|c| c.set(0));
}
pub fn disarm() {
    FUSE_KIND.with(|k| k.set(0));
    FUSE.with(|f| f.set(-1));
}
pub fn fuse_count() -> u64 {
    FUSE_COUNT.with(|c| c.get())
}
pub fn fired() -> bool {
    FUSE.with(|f| f.get() == 0)
}

pub struct FusePanic;

/// A fuse point: panics if this is the armed invocation.
pub fn fuse_point(kind: u8) {
    if FUSE_KIND.with(|k| k.get()) & kind == 0 {
        return;
    }
    FUSE_COUNT.with(|c| c.set(c.get() + 1));
    let fire = FUSE.with(|f| {
        let v = f.get();
        if v > 0 {
            f.set(v - 1);
            v == 1
        } else {
            false
        }
    });
    if fire {
        std::panic::panic_any(FusePanic);
    }
}

// ------------------------------------------------------------------------------------------

/// A value with an observable destructor.
pub struct Tracked {
    pub id: u32,
    pub epoch: u32,
    /// a payload used for equality / ordering / keys; survives clone
    pub key: u32,
    /// id ^ COOKIE: lets the destructor recognise a bit pattern that never was a Tracked (a slot the
    /// container wrongly believes initialised) and report it instead of freeing a wild pointer
    cookie: u32,
    heap: ManuallyDrop<Box<u32>>,
}
const COOKIE: u32 = 0x5EED_C0DE;

impl Tracked {
    pub fn new(key: u32) -> Tracked {
        let id = mint(key);
        let _p = halloc::pause();
        Tracked { id, epoch: epoch(), key, cookie: id ^ COOKIE, heap: ManuallyDrop::new(Box::new(id)) }
    }
    /// integrity of the heap part (reads freed memory under Miri/ASan if the value is stale)
    pub fn check(&self) -> bool {
        self.cookie == self.id ^ COOKIE && **self.heap == self.id
    }
}

impl Drop for Tracked {
    fn drop(&mut self) {
        let _p = halloc::pause();
        if self.cookie != self.id ^ COOKIE {
            // not a value this harness created: garbage handed to a destructor
            GARBAGE_DROPS.with(|g| g.set(g.get() + 1));
            LEDGER.with(|l| l.borrow_mut().unknown.push(self.id));
            return;
        }
        if self.epoch != epoch() {
            // a value from an earlier program leaked on purpose and dropped late: free quietly
            unsafe { ManuallyDrop::drop(&mut self.heap) };
            return;
        }
        let first = LEDGER.with(|l| {
            let mut l = l.borrow_mut();
            let id = self.id;
            match l.st.get(id as usize).copied() {
                Some(St::Live) => {
                    l.st[id as usize] = St::Dropped;
                    l.log.push(id);
                    true
                }
                Some(St::Dropped) => {
                    l.double.push(id);
                    l.log.push(id);
                    false
                }
                None => {
                    l.unknown.push(id);
                    false
                }
            }
        });
        if first {
            unsafe { ManuallyDrop::drop(&mut self.heap) };
            drop(_p);
            fuse_point(F_DROP);
        }
    }
}

impl Clone for Tracked {
    fn clone(&self) -> Tracked {
        fuse_point(F_CLONE);
        Tracked::new(self.key)
    }
}
impl Default for Tracked {
    fn default() -> Tracked {
        fuse_point(F_DEFAULT);
        Tracked::new(0)
    }
}
impl PartialEq for Tracked {
    fn eq(&self, o: &Tracked) -> bool {
        fuse_point(F_EQ);
        self.key == o.key
    }
}
impl Eq for Tracked {}
impl PartialOrd for Tracked {
    fn partial_cmp(&self, o: &Tracked) -> Option<std::cmp::Ordering> {
        Some(self.key.cmp(&o.key))
    }
}
impl Ord for Tracked {
    fn cmp(&self, o: &Tracked) -> std::cmp::Ordering {
        self.key.cmp(&o.key)
    }
}
impl std::hash::Hash for Tracked {
    fn hash<H: std::hash::Hasher>(&self, h: &mut H) {
        self.key.hash(h)
    }
}
impl std::fmt::Debug for Tracked {
    fn fmt(&self, f: &mut std::fmt::Formatter<'_>) -> std::fmt::Result {
        write!(f, "T{}k{}", self.id, self.key)
    }
}

/// Zero-sized value with an observable destructor (counted, not identified).
pub struct TrackedZst;
thread_local! {
    static ZST_MINTED: Cell<u64> = const { Cell::new(0) };
    static ZST_DROPPED: Cell<u64> = const { Cell::new(0) };
}
impl TrackedZst {
    pub fn new() -> TrackedZst {
        ZST_MINTED.with(|c| c.set(c.get() + 1));
        TrackedZst
    }
}
impl Drop for TrackedZst {
    fn drop(&mut self) {
        ZST_DROPPED.with(|c| c.set(c.get() + 1));
        fuse_point(F_DROP);
    }
}
impl Clone for TrackedZst {
    fn clone(&self) -> TrackedZst {
        fuse_point(F_CLONE);
        TrackedZst::new()
    }
}
impl PartialEq for TrackedZst {
    fn eq(&self, _o: &TrackedZst) -> bool {
        true
    }
}
impl std::fmt::Debug for TrackedZst {
    fn fmt(&self, f: &mut std::fmt::Formatter<'_>) -> std::fmt::Result {
        write!(f, "Z")
    }
}
pub fn zst_counts() -> (u64, u64) {
    (ZST_MINTED.with(|c| c.get()), ZST_DROPPED.with(|c| c.get()))
}
pub fn zst_reset() {
    ZST_MINTED.with(|c| c.set(0));
    ZST_DROPPED.with(|c| c.set(0));
}
