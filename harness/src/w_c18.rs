//! C18: requested capacity is honoured, chunk_capacity() never overstates, reserved Vec/String
//! capacity is honoured without moving, growth is geometric (counting monitors over the
//! global-allocator event ledger and over as_ptr()).
use crate::arena::*;
use crate::gen::{self, Profile};
use crate::halloc::{self, Env, EV_ALLOC};
use crate::json::J;
use crate::ops::*;
use crate::report::{fnv, Report};
use crate::rng::Rng;
use crate::Args;
use allocator_api2::alloc::Allocator;
use bumpalo::collections::{String as BString, Vec as BVec};
use bumpalo::Bump;
use std::alloc::Layout;

pub fn run(args: &Args, rep: &mut Report) {
    crate::dispatch_ma!(args.ma, run_m, args, rep);
    if args.ma == 1 {
        run_collections(args, rep);
    }
}

fn log2f(x: usize) -> usize {
    (usize::BITS - x.max(1).leading_zeros()) as usize
}

fn capacity_case<const M: usize>(rep: &mut Report, rng: &mut Rng, c: usize, fallible: bool, strategy: u8, instrumented: bool) {
    let hseed = rng.next();
    Env::from_seed(hseed, instrumented).apply(hseed);
    rep.ctx = format!("C18 capacity case c={} fallible={} strategy={} M={}", c, fallible, strategy, M);
    let mut s = match Sim::<M>::new(hseed, rep, Some(c), fallible) {
        Some(s) => s,
        None => {
            rep.violate("C18", "C18/with_capacity/constructor-failed", format!("c={}", c));
            return;
        }
    };
    s.verify_every = 64;
    let chunks0 = s.chunks.len();
    let mut left = c / M * M; // requests are multiples of M
    let mut served = 0usize;
    let mut n = 0;
    while left > 0 && n < 3000 {
        let size = match strategy {
            0 => M,
            1 => left,
            2 => (rng.range(1, 64) * M).min(left),
            3 => {
                // halves
                ((left / 2) / M * M).max(M).min(left)
            }
            _ => (rng.range(1, (left / M).max(1)) * M).min(left),
        };
        let align = 1usize << rng.below(M.trailing_zeros() as usize + 1);
        let out = if rng.chance(1, 2) { s.op_alloc_layout(rep, size, align, rng.chance(1, 2)) } else { s.op_allocate(rep, size, align, false) };
        if out != Outcome::Ok || s.chunks.len() != chunks0 {
            rep.violate(
                "C18",
                format!("C18/with_capacity/capacity-not-served-without-more-memory{}", if left == size { "/last-request-exact-fit" } else { "" }),
                format!("capacity {} (M={}): after serving {} bytes a request of {} (align {}) {} ; chunks {} -> {}", c, M, served, size, align, if out == Outcome::Ok { "needed a new chunk" } else { "failed" }, chunks0, s.chunks.len()),
            );
            break;
        }
        served += size;
        left -= size;
        n += 1;
        if strategy == 0 && n >= 600 {
            // many tiny requests: finish with one request for the rest
            let out = s.op_alloc_layout(rep, left, 1, false);
            if left > 0 && (out != Outcome::Ok || s.chunks.len() != chunks0) {
                rep.violate("C18", "C18/with_capacity/capacity-not-served-without-more-memory", format!("capacity {} (M={}): rest {} after {} tiny requests", c, M, left, n));
            }
            break;
        }
    }
    rep.bump("c18.capacity_cases");
    rep.evaluations += 1;
    rep.distinct.insert(fnv(fnv(c as u64, M as u64), strategy as u64 * 2 + fallible as u64));
    s.drop_arena(rep);
}

/// chunk_capacity() bytes must be servable from the current chunk (probed and undone)
fn cap_probe<const M: usize>(s: &mut Sim<M>, rep: &mut Report) {
    let cap = s.bump.chunk_capacity();
    if cap == 0 || cap > (4 << 20) {
        return;
    }
    s.cur = format!("chunk_capacity-probe({})", cap);
    let before = s.chunks.len();
    s.begin();
    let l = Layout::from_size_align(cap, 1).unwrap();
    let r = {
        let b: &Bump<M> = &**s.bump;
        b.allocate(l)
    };
    let ev = s.end(rep, OpKind::Probe);
    let asked = ev.iter().filter(|e| e.kind == EV_ALLOC && e.cand).count();
    match r {
        Ok(p) => {
            if asked != 0 || s.chunks.len() != before {
                rep.violate("C18", "C18/chunk_capacity-overstates/probe-needed-new-chunk", format!("chunk_capacity() = {} but a request of that size went to the global allocator", cap));
                // cannot undo safely: register it as a live block
                let id = s.next_id;
                let exp = pat_bytes(id, cap);
                if s.register(rep, p.cast::<u8>().as_ptr(), cap, 1, exp.clone(), Some((cap, 1)), "cap-probe").is_some() {
                    unsafe { fill(p.cast::<u8>().as_ptr(), &exp) };
                }
                s.after_op(rep, OpKind::Probe, &ev);
            } else {
                s.after_op(rep, OpKind::Probe, &ev);
                s.begin();
                unsafe {
                    let b: &Bump<M> = &**s.bump;
                    b.deallocate(p.cast(), l)
                };
                let ev2 = s.end(rep, OpKind::Dealloc);
                s.after_op(rep, OpKind::Dealloc, &ev2);
                if s.bump.chunk_capacity() != cap {
                    rep.violate("C18", "C18/chunk_capacity-probe-not-undone", format!("{} -> {}", cap, s.bump.chunk_capacity()));
                }
            }
        }
        Err(_) => {
            rep.violate("C18", "C18/chunk_capacity-overstates/probe-failed", format!("chunk_capacity() = {} but a request of that size (align 1) failed", cap));
            s.after_op(rep, OpKind::Probe, &ev);
        }
    }
    rep.bump("c18.capacity_probes");
}

/// growth clauses: fault-free, limit-free, reset-free volume runs
fn growth_case<const M: usize>(rep: &mut Report, rng: &mut Rng, volume: usize, dist: u8, cap0: Option<usize>, instrumented: bool) {
    let hseed = rng.next();
    Env { skew: (hseed % 3) as u8, junk: false, scribble: false, quarantine: false, cap: 256 << 20 }.apply(hseed);
    let _ = instrumented;
    rep.ctx = format!("C18 growth case volume={} dist={} cap0={:?} M={}", volume, dist, cap0, M);
    let mut s = match Sim::<M>::new(hseed, rep, cap0, false) {
        Some(s) => s,
        None => return,
    };
    s.verify_every = 1 << 30; // contents are not the point here
    let mut occupied_req = 0usize;
    let mut big_requests = 0usize;
    let mut max_align = 1usize;
    let mut n_req = 0usize;
    let mut reqs: Vec<(usize, usize)> = Vec::new();
    while occupied_req < volume {
        let size = match dist {
            0 => rng.range(1, 16),
            1 => rng.range(1, 256),
            2 => rng.range(200, 9000),
            3 => rng.range(4096, 3 * 4096),
            4 => {
                if rng.chance(1, 50) {
                    rng.range(10_000, 200_000)
                } else {
                    rng.range(1, 64)
                }
            }
            6 => {
                // slowly increasing multi-page blocks, each a bit larger than the current chunk
                let cur = s.chunks.last().map(|c| c.size).unwrap_or(4096).max(4096);
                cur + rng.range(1, cur / 2)
            }
            _ => 1usize << rng.range(0, 14),
        };
        let align = 1usize << if rng.chance(1, 10) { rng.below(7) } else { rng.below(4) };
        max_align = max_align.max(align);
        let cur_chunk = s.chunks.last().map(|c| c.size).unwrap_or(0);
        if size + align > cur_chunk {
            big_requests += 1;
        }
        let before = s.chunks.len();
        // cheap path: no shadow content (sizes can add up to tens of MB)
        s.cur = format!("growth alloc({},{})", size, align);
        s.begin();
        let r = s.bump.try_alloc_layout(Layout::from_size_align(size, align).unwrap());
        let ev = s.end(rep, OpKind::Alloc);
        if r.is_err() {
            rep.violate("C18", "C18/growth/fault-free-request-failed", format!("size {} align {}", size, align));
            break;
        }
        if s.chunks.len() > before {
            let n = s.chunks.len();
            if n >= 2 && s.chunks[n - 1].size < s.chunks[n - 2].size {
                rep.violate("C18", "C18/growth/new-chunk-smaller-than-predecessor", format!("{} after {} (request {} align {})", s.chunks[n - 1].size, s.chunks[n - 2].size, size, align));
            }
            // "doubling while the global allocator and limit permit": nothing refuses anything in
            // this run, so every new chunk has at least twice the usable size of its predecessor
            if n >= 2 && (s.chunks[n - 1].size - s.k) < 2 * (s.chunks[n - 2].size - s.k) {
                rep.violate(
                    "C18",
                    "C18/growth/new-chunk-not-doubled",
                    format!("usable {} after usable {} (request {} align {}, nothing was refused)", s.chunks[n - 1].size - s.k, s.chunks[n - 2].size - s.k, size, align),
                );
            }
            rep.bump("c18.doubling_checks");
        }
        let _ = ev;
        occupied_req += size;
        n_req += 1;
        if reqs.len() < 200_000 {
            reqs.push((size, align));
        }
    }
    let free_sizes: Vec<usize> = s.chunks.iter().map(|c| c.size).collect();
    let obs = s.observe();
    let occupied: usize = obs.chunks.iter().map(|c| c.1).sum();
    let held = s.held_usable();
    let nchunks = s.chunks.len();
    // logarithmic number of global-allocator requests
    let bound_chunks = 3 + log2f(occupied / 64 + 1) + big_requests;
    if nchunks > bound_chunks {
        rep.violate("C18", "C18/growth/too-many-chunk-requests", format!("{} chunks for {} occupied bytes ({} requests, {} larger than the current chunk); bound {}", nchunks, occupied, n_req, big_requests, bound_chunks));
    }
    let bound_held = 6 * occupied.max(cap0.unwrap_or(0)) + 4 * max_align + (16 << 10);
    if held > bound_held {
        rep.violate("C18", "C18/growth/held-memory-not-within-constant-factor", format!("held {} occupied {} cap0 {:?} bound {}", held, occupied, cap0, bound_held));
    }
    rep.max("max_chunks_in_growth_case", nchunks as u64);
    rep.max("max_held_over_occupied_x100", (held * 100 / occupied.max(1)) as u64);
    rep.bump("c18.growth_cases");
    rep.add("c18.growth_requests", n_req as u64);
    rep.evaluations += 1;
    rep.distinct.insert(fnv(fnv(volume as u64, dist as u64 + 77), fnv(nchunks as u64, M as u64)));
    // the iteration order / accounting monitors run once at the end
    s.last_obs = None;
    s.after_op(rep, OpKind::Alloc, &[]);
    s.drop_arena(rep);
    // the same requests against an allocator that refuses every block larger than one of the chunk sizes
    // just seen: growth goes on with chunks of that size ("at least as large as the last" while a
    // chunk of the last size is still granted); requests that cannot fit such a chunk may fail
    if free_sizes.len() >= 3 && cap0.is_none() {
        let j = 1 + (hseed as usize >> 8) % (free_sizes.len() - 1);
        let t = free_sizes[j];
        Env { skew: (hseed % 3) as u8, junk: false, scribble: false, quarantine: false, cap: 256 << 20 }.apply(hseed);
        rep.ctx = format!("C18 growth case volume={} dist={} M={} again with blocks above {} refused", volume, dist, M, t);
        if let Some(mut s2) = Sim::<M>::new(hseed, rep, None, false) {
            s2.verify_every = 1 << 30;
            halloc::set_refuse(halloc::Refuse::Above(t));
            let mut last = 0usize;
            for &(size, align) in &reqs {
                if s2.chunks.len() >= 1500 {
                    break; // the allocator's event ring holds 2048 events: dropping more chunks than that in one call would lose some
                }
                let before = s2.chunks.len();
                s2.cur = format!("capped growth alloc({},{})", size, align);
                s2.begin();
                let r = s2.bump.try_alloc_layout(Layout::from_size_align(size, align).unwrap());
                let _ = s2.end(rep, OpKind::Alloc);
                if r.is_err() && size + align + 64 + s2.k <= t {
                    rep.violate("C18", "C18/growth/request-failed-although-a-chunk-of-the-last-size-is-still-granted", format!("size {} align {} with blocks up to {} granted", size, align, t));
                    break;
                }
                if s2.chunks.len() > before {
                    let n = s2.chunks.len();
                    let new = s2.chunks[n - 1].size;
                    if new < last.min(t) && size + align + 64 + s2.k <= new.max(last) {
                        rep.violate(
                            "C18",
                            "C18/growth/new-chunk-smaller-than-predecessor-although-an-equal-one-is-still-granted",
                            format!("block of {} bytes after one of {} (blocks up to {} are granted; request {} align {})", new, last, t, size, align),
                        );
                        break;
                    }
                    last = last.max(new);
                    rep.bump("c18.capped_growth_acquisitions");
                }
            }
            halloc::set_refuse(halloc::Refuse::None);
            s2.last_obs = None;
            s2.after_op(rep, OpKind::Alloc, &[]);
            s2.drop_arena(rep);
            rep.bump("c18.capped_growth_cases");
        }
    }
}

fn run_m<const M: usize>(args: &Args, rep: &mut Report) {
    let mut rng = Rng::new(Rng::mix(args.seed ^ 0xC18, args.shard ^ ((M as u64) << 40)));
    let quick = args.get_usize("quick", 1) == 1;
    let miri = cfg!(miri);
    // ---- part 1: capacity grid
    let mut caps: Vec<usize> = Vec::new();
    if !miri {
        caps.extend(1..=130);
        for base in [448usize, 960, 1984, 4032, 8128, 16320, 32704, 4096, 8192, 65536, 131072] {
            for d in -20i64..=20 {
                caps.push((base as i64 + d) as usize);
            }
        }
        for _ in 0..(if quick { 60 } else { 600 }) {
            caps.push(rng.range(1, 300_000));
        }
    } else {
        caps.extend([1usize, 7, 16, 100, 447, 448, 449, 960, 1000]);
    }
    let stride = args.get_usize("stride", 1);
    for (i, &c) in caps.iter().enumerate() {
        if i % stride != (args.shard as usize) % stride {
            continue;
        }
        for strategy in 0u8..5 {
            if miri && strategy == 0 {
                continue;
            }
            capacity_case::<M>(rep, &mut rng, c, (i + strategy as usize) % 2 == 0, strategy, args.instrumented);
            if rep.violations.len() >= rep.max_violations {
                return;
            }
        }
    }
    // ---- part 2: chunk_capacity probes inside random histories
    let profile = Profile::general();
    for it in 0..args.iters {
        let hseed = rng.next();
        Env::from_seed(hseed >> 8, args.instrumented).apply(hseed);
        crate::ledger::reset();
        rep.ctx = format!("C18 probe history {} (seed {} shard {} M {})", it, args.seed, args.shard, M);
        let mut s = match Sim::<M>::new(hseed, rep, None, false) {
            Some(s) => s,
            None => continue,
        };
        for opi in 0..args.ops {
            rep.ctx = format!("C18 probe history {} op {} (seed {} shard {} M {})", it, opi, args.seed, args.shard, M);
            gen::step(&mut s, rep, &profile);
            if opi % 3 == 0 {
                cap_probe(&mut s, rep);
            }
        }
        s.drop_arena(rep);
        rep.evaluations += 1;
        rep.distinct.insert(fnv(hseed, 18));
        if rep.violations.len() >= rep.max_violations {
            return;
        }
    }
    // ---- part 4: growth
    if !miri {
        let volumes: &[usize] = if quick { &[1_000, 20_000, 400_000, 3_000_000] } else { &[1_000, 5_000, 20_000, 100_000, 400_000, 1_000_000, 3_000_000, 12_000_000] };
        for &v in volumes {
            for dist in 0u8..7 {
                if dist == 6 && v < 100_000 {
                    continue;
                }
                if dist == 0 && v > 1_000_000 {
                    continue;
                }
                for cap0 in [None, Some(v / 10), Some(100)] {
                    growth_case::<M>(rep, &mut rng, v, dist, cap0, args.instrumented);
                    if rep.violations.len() >= rep.max_violations {
                        return;
                    }
                }
            }
        }
    }
    let mut j = J::obj();
    j.set("capacity_grid", J::s("capacities 1..=130, {448,960,1984,4032,8128,16320,32704,4096,8192,65536,131072} +- 20, random up to 300000; 5 request strategies (all-M, one request, random small, halves, random large); every MIN_ALIGN"));
    j.set("growth_grid", J::s("volumes 1e3..1.2e7 bytes x 6 size distributions x initial capacity {none, v/10, 100}"));
    j.set("min_align", J::i(M as u64));
    rep.sample(j);
    halloc::set_refuse(halloc::Refuse::None);
}

/// Vec / String: reserved capacity accepts that many elements without moving; reallocations
/// grow logarithmically.  (collections are tied to Bump<1>)
fn run_collections(args: &Args, rep: &mut Report) {
    let mut rng = Rng::new(Rng::mix(args.seed ^ 0x18C, args.shard));
    let miri = cfg!(miri);
    let n_cases = if miri { 6 } else { args.get_usize("vec_cases", 300) };
    Env::PLAIN.apply(1);
    macro_rules! vec_case {
        ($T:ty, $mk:expr, $name:expr) => {{
            for _ in 0..n_cases {
                let b = Bump::new();
                let n = if miri { rng.range(1, 60) } else if rng.chance(1, 10) { rng.range(1000, 60_000) } else { rng.range(1, 900) };
                rep.ctx = format!("C18 vec<{}> with_capacity({})", $name, n);
                let mut v: BVec<$T> = BVec::with_capacity_in(n, &b);
                if v.capacity() < n {
                    rep.violate("C18", format!("C18/vec<{}>/with_capacity-capacity-below-request", $name), format!("{} < {}", v.capacity(), n));
                }
                let p0 = v.as_ptr();
                let mut neighbours = 0;
                for i in 0..n {
                    v.push($mk(i));
                    if i % 37 == 0 {
                        b.alloc(i as u64); // a neighbour: any reallocation would have to move
                        neighbours += 1;
                    }
                    if v.as_ptr() != p0 {
                        rep.violate("C18", format!("C18/vec<{}>/moved-within-reserved-capacity/with_capacity", $name), format!("moved at len {} of promised {}", i + 1, n));
                        break;
                    }
                }
                // reserve(k) on top
                let k = if miri { rng.range(1, 30) } else { rng.range(1, 2000) };
                v.reserve(k);
                if v.capacity() < v.len() + k {
                    rep.violate("C18", format!("C18/vec<{}>/reserve-capacity-below-promise", $name), format!("{} < {}", v.capacity(), v.len() + k));
                }
                let p1 = v.as_ptr();
                for i in 0..k {
                    v.push($mk(i));
                    if i % 29 == 0 {
                        b.alloc(i as u32);
                    }
                    if v.as_ptr() != p1 {
                        rep.violate("C18", format!("C18/vec<{}>/moved-within-reserved-capacity/reserve", $name), format!("moved at extra {} of promised {}", i + 1, k));
                        break;
                    }
                }
                // try_reserve / reserve_exact / try_reserve_exact
                let k2 = rng.range(1, 200);
                match rng.below(3) {
                    0 => {
                        let _ = v.try_reserve(k2);
                    }
                    1 => v.reserve_exact(k2),
                    _ => {
                        let _ = v.try_reserve_exact(k2);
                    }
                }
                if v.capacity() < v.len() + k2 {
                    rep.violate("C18", format!("C18/vec<{}>/reserve-variant-capacity-below-promise", $name), String::new());
                }
                let p2 = v.as_ptr();
                for i in 0..k2 {
                    v.push($mk(i));
                    b.alloc(1u8);
                    if v.as_ptr() != p2 {
                        rep.violate("C18", format!("C18/vec<{}>/moved-within-reserved-capacity/reserve-variant", $name), String::new());
                        break;
                    }
                }
                let _ = neighbours;
                // extend / extend_from_slice with iterators whose size_hint is inexact, within reserved room
                {
                    let room = rng.range(8, 64);
                    let mut w: BVec<$T> = BVec::with_capacity_in(room, &b);
                    let first = room / 4;
                    for i in 0..first {
                        w.push($mk(i));
                    }
                    b.alloc(3u8);
                    let pw = w.as_ptr();
                    let yield_n = rng.range(0, room - first);
                    // a filter over a long range: lower bound 0, upper bound far above the room left
                    w.extend((0..10_000usize).filter(|x| x % 97 == 0).take(yield_n).map(|i| $mk(i)));
                    let mut cnt = 0;
                    w.extend((0..5_000usize).take_while(|_| {
                        cnt += 1;
                        cnt <= 0
                    }).map(|i| $mk(i)));
                    if w.as_ptr() != pw || w.len() != first + yield_n.min(104) {
                        rep.violate("C18", format!("C18/vec<{}>/moved-within-reserved-capacity/extend-inexact-hint", $name), format!("capacity {} len {} -> {} moved {}", room, first, w.len(), w.as_ptr() != pw));
                    }
                    rep.bump("c18.vec_extend_inexact_cases");
                }
                rep.bump("c18.vec_capacity_cases");
                rep.evaluations += 1;
                rep.distinct.insert(fnv(fnv(n as u64, k as u64), std::mem::size_of::<$T>() as u64));
            }
            // logarithmic number of reallocations for n pushes with neighbours (every realloc moves)
            for &n in (if miri { &[40usize][..] } else { &[10usize, 100, 1000, 10_000, 100_000][..] }) {
                for mode in 0..4 {
                    let b = Bump::new();
                    let mut v: BVec<$T> = BVec::new_in(&b);
                    let mut moves = 0usize;
                    let mut last = v.as_ptr();
                    let mut last_cap = v.capacity();
                    let mut cap_changes = 0;
                    for i in 0..n {
                        match mode {
                            0 => v.push($mk(i)),
                            1 => {
                                v.reserve(1);
                                v.push($mk(i));
                            }
                            2 => {
                                let _ = v.try_reserve(1);
                                v.push($mk(i));
                            }
                            _ => v.extend(std::iter::once($mk(i))),
                        }
                        if i % 3 == 0 {
                            b.alloc(7u8);
                        }
                        if v.as_ptr() != last {
                            moves += 1;
                            last = v.as_ptr();
                        }
                        if v.capacity() != last_cap {
                            cap_changes += 1;
                            last_cap = v.capacity();
                        }
                    }
                    let bound = 3 + log2f(n);
                    if moves > bound || cap_changes > bound {
                        rep.violate(
                            "C18",
                            format!("C18/vec<{}>/reallocations-not-logarithmic/{}", $name, ["push", "reserve(1)+push", "try_reserve(1)+push", "extend-one"][mode]),
                            format!("{} moves, {} capacity changes for {} pushes (bound {})", moves, cap_changes, n, bound),
                        );
                    }
                    // held memory within a constant factor of what the vector occupies
                    let occupied = n * std::mem::size_of::<$T>().max(1) + n / 3 + 1;
                    let held = b.allocated_bytes();
                    // abandoned buffers stay in the arena (1+2+4+... <= 2x final capacity <= 4x len) and chunks double on top: <= 16x; 24x leaves slack
                    if held > 24 * occupied + (16 << 10) {
                        rep.violate("C18", format!("C18/vec<{}>/held-memory-not-within-constant-factor", $name), format!("held {} for {} occupied", held, occupied));
                    }
                    rep.bump("c18.vec_growth_cases");
                    rep.evaluations += 1;
                    rep.distinct.insert(fnv(fnv(n as u64, mode as u64 + 900), std::mem::size_of::<$T>() as u64));
                }
                // a buffer that is emptied and refilled with ever larger payloads still grows geometrically
                if std::mem::size_of::<$T>() > 0 {
                    let b = Bump::new();
                    let mut v: BVec<$T> = BVec::new_in(&b);
                    let mut changes = 0usize;
                    let mut last_cap = v.capacity();
                    let top = n.min(4000);
                    for k in 1..=top {
                        if k % 2 == 0 {
                            v.clear();
                        } else {
                            v.truncate(v.len() / 3);
                        }
                        let payload: Vec<$T> = (0..k).map(|i| $mk(i)).collect();
                        v.extend_from_slice(&payload);
                        b.alloc(1u8);
                        if v.capacity() != last_cap {
                            changes += 1;
                            last_cap = v.capacity();
                        }
                    }
                    if changes > 3 + log2f(top) {
                        rep.violate("C18", format!("C18/vec<{}>/reallocations-not-logarithmic/clear-and-refill", $name), format!("{} capacity changes while refilling up to {} elements (bound {})", changes, top, 3 + log2f(top)));
                    }
                    rep.bump("c18.vec_refill_cases");
                    rep.evaluations += 1;
                }
            }
        }};
    }
    // sparse collect: a handful of elements out of a long filtered range must not reserve for the range
    for _ in 0..(if miri { 1 } else { 20 }) {
        use bumpalo::collections::CollectIn;
        let b = Bump::new();
        let span = if miri { 500usize } else { rng.range(50_000, 400_000) };
        let step = span / rng.range(3, 12);
        let v: BVec<u64> = (0..span as u64).filter(|x| (*x as usize) % step == 0).collect_in(&b);
        let w: BVec<u64> = BVec::from_iter_in((0..span as u64).filter(|x| (*x as usize) % step == 1), &b);
        let occupied = (v.len() + w.len()) * 8 + 64;
        if b.allocated_bytes() > 24 * occupied + (16 << 10) || v.capacity() > 8 * v.len() + 16 {
            rep.violate("C18", "C18/vec<u64>/sparse-collect-reserves-for-the-upper-bound", format!("{}+{} elements, capacity {}, arena holds {} bytes (range of {})", v.len(), w.len(), v.capacity(), b.allocated_bytes(), span));
        }
        rep.bump("c18.sparse_collect_cases");
        rep.evaluations += 1;
    }
    vec_case!(u8, |i: usize| i as u8, "u8");
    vec_case!(u64, |i: usize| i as u64, "u64");
    vec_case!([u8; 24], |i: usize| [i as u8; 24], "[u8;24]");
    vec_case!([u64; 32], |i: usize| [i as u64; 32], "[u64;32]");
    vec_case!((), |_i: usize| (), "()");
    // String
    for _ in 0..n_cases {
        let b = Bump::new();
        let n = if miri { rng.range(1, 50) } else { rng.range(1, 5000) };
        rep.ctx = format!("C18 string with_capacity({})", n);
        let mut s = BString::with_capacity_in(n, &b);
        if s.capacity() < n {
            rep.violate("C18", "C18/string/with_capacity-capacity-below-request", String::new());
        }
        let p0 = s.as_ptr();
        // fill to exactly the promised capacity with characters of every width that still fits
        loop {
            let room = n - s.len();
            if room == 0 {
                break;
            }
            let cands: Vec<char> = ['a', 'é', '€', '😀'].iter().copied().filter(|c| c.len_utf8() <= room).collect();
            let c = cands[rng.below(cands.len())];
            s.push(c);
            if s.len() % 13 == 0 {
                b.alloc(1u16);
            }
            if s.as_ptr() != p0 {
                rep.violate("C18", "C18/string/moved-within-reserved-capacity/with_capacity", format!("pushing {:?} at len {} of promised {}", c, s.len() - c.len_utf8(), n));
                break;
            }
        }
        let k = rng.range(1, 400);
        s.reserve(k);
        if s.capacity() < s.len() + k {
            rep.violate("C18", "C18/string/reserve-capacity-below-promise", String::new());
        }
        let p1 = s.as_ptr();
        let l0 = s.len();
        loop {
            let room = l0 + k - s.len();
            if room == 0 {
                break;
            }
            let cands: Vec<char> = ['x', 'ß', '한', '𝄞'].iter().copied().filter(|c| c.len_utf8() <= room).collect();
            let c = cands[rng.below(cands.len())];
            if rng.chance(1, 2) {
                s.push(c);
            } else {
                let mut buf = [0u8; 4];
                s.push_str(c.encode_utf8(&mut buf));
            }
            b.alloc(1u8);
            if s.as_ptr() != p1 {
                rep.violate("C18", "C18/string/moved-within-reserved-capacity/reserve", format!("pushing {:?} with {} bytes of promised room left", c, room));
                break;
            }
        }
        rep.bump("c18.string_capacity_cases");
        rep.evaluations += 1;
        rep.distinct.insert(fnv(n as u64, k as u64 + 5555));
    }
    for &top in (if miri { &[30usize][..] } else { &[500usize, 4000][..] }) {
        let b = Bump::new();
        let mut s = BString::new_in(&b);
        let mut changes = 0;
        let mut last_cap = s.capacity();
        for k in 1..=top {
            s.clear();
            for _ in 0..k {
                s.push('q');
            }
            s.truncate(k / 2);
            s.push_str(&"é".repeat(k / 2 + 1));
            b.alloc(1u8);
            if s.capacity() != last_cap {
                changes += 1;
                last_cap = s.capacity();
            }
        }
        if changes > 4 + log2f(top * 2) {
            rep.violate("C18", "C18/string/reallocations-not-logarithmic/clear-and-refill", format!("{} capacity changes up to {} bytes", changes, top * 2));
        }
        rep.evaluations += 1;
    }
    for &n in (if miri { &[40usize][..] } else { &[10usize, 1000, 100_000][..] }) {
        let b = Bump::new();
        let mut s = BString::new_in(&b);
        let mut moves = 0;
        let mut last = s.as_ptr();
        for i in 0..n {
            s.push('y');
            if i % 3 == 0 {
                b.alloc(7u8);
            }
            if s.as_ptr() != last {
                moves += 1;
                last = s.as_ptr();
            }
        }
        if moves > 3 + log2f(n) {
            rep.violate("C18", "C18/string/reallocations-not-logarithmic", format!("{} moves for {} pushes", moves, n));
        }
        rep.evaluations += 1;
    }
    every_way_of_growing(args, rep, &mut rng);
}

const VEC_WAYS: [&str; 13] = ["push", "insert-front", "insert-middle", "extend_from_slice", "extend-exact-hint", "extend-no-hint", "splice-front-keeping-a-tail", "splice-middle", "resize", "append", "extend_from_slice_copy", "extend_from_slices_copy", "insert-back"];

fn vec_add<'b>(v: &mut BVec<'b, u64>, b: &'b Bump, way: usize, k: usize, next: &mut u64) {
    let items: Vec<u64> = (0..k as u64).map(|i| *next + i).collect();
    *next += k as u64;
    match way {
        0 => {
            for x in items {
                v.push(x);
            }
        }
        1 => {
            for x in items {
                v.insert(0, x);
            }
        }
        2 => {
            for x in items {
                let at = v.len() / 2;
                v.insert(at, x);
            }
        }
        3 => v.extend_from_slice(&items),
        4 => v.extend(items.into_iter()),
        5 => v.extend(items.into_iter().filter(|_| true)),
        6 => {
            // replaced range empty, replacement longer, everything behind it is the tail
            let _ = v.splice(0..0, items.into_iter());
        }
        7 => {
            let at = v.len() / 2;
            let hi = (at + 1).min(v.len());
            let mut it = items;
            // replace one element by k + 1 (or insert k into an empty vector): net growth k
            if hi > at {
                it.push(*next);
                *next += 1;
            }
            let removed: Vec<u64> = v.splice(at..hi, it.into_iter().filter(|_| true)).collect();
            // net growth is k
            let _ = removed;
        }
        8 => {
            let n = v.len() + k;
            v.resize(n, items.first().copied().unwrap_or(0));
        }
        9 => {
            let mut other: BVec<u64> = BVec::from_iter_in(items.into_iter(), b);
            v.append(&mut other);
        }
        10 => v.extend_from_slice_copy(&items),
        11 => {
            let (x, y) = items.split_at(k / 2);
            v.extend_from_slices_copy(&[x, y]);
        }
        _ => {
            for x in items {
                let at = v.len();
                v.insert(at, x);
            }
        }
    }
}

const STR_WAYS: [&str; 10] = ["push", "push_str", "insert-front", "insert_str-middle", "replace_range-keeping-a-tail", "extend-chars", "extend-strs", "add-assign", "write!", "insert_str-back"];

fn str_add(s: &mut BString, way: usize, piece: &str) {
    use std::fmt::Write;
    match way {
        0 => {
            for c in piece.chars() {
                s.push(c);
            }
        }
        1 => s.push_str(piece),
        2 => {
            for c in piece.chars().rev() {
                s.insert(0, c);
            }
        }
        3 => {
            let mut at = s.len() / 2;
            while !s.is_char_boundary(at) {
                at -= 1;
            }
            s.insert_str(at, piece);
        }
        4 => {
            // empty range at the front replaced by the piece: all the old text is the tail
            s.replace_range(0..0, piece);
        }
        5 => s.extend(piece.chars()),
        6 => s.extend([piece].iter().copied()),
        7 => *s += piece,
        8 => {
            let _ = write!(s, "{}", piece);
        }
        _ => {
            let at = s.len();
            s.insert_str(at, piece);
        }
    }
}

/// C18 for every operation that adds elements, not only push: inside reserved capacity nothing
/// moves, and unbounded growth reallocates O(log n) times.
fn every_way_of_growing(args: &Args, rep: &mut Report, rng: &mut Rng) {
    let miri = cfg!(miri);
    let _ = args;
    let rounds = if miri { 1 } else { 12 };
    for round in 0..rounds {
        for way in 0..VEC_WAYS.len() {
            let name = VEC_WAYS[way];
            // (a) inside reserved capacity
            {
                let b = Bump::new();
                let cap = if miri { rng.range(8, 40) } else { rng.range(8, 600) } as usize;
                let mut v: BVec<u64> = BVec::with_capacity_in(cap, &b);
                let c0 = v.capacity();
                let mut next = 1u64;
                if rng.chance(1, 2) {
                    v.push(0); // a tail for the splices
                }
                b.alloc(9u8);
                let p0 = v.as_ptr();
                rep.ctx = format!("C18 every-way vec {} reserved {}", name, cap);
                loop {
                    let room = c0 - v.len();
                    let extra = 0;
                    if room < 1 + extra {
                        break;
                    }
                    let k = (rng.range(1, 6) as usize).min(room - extra);
                    vec_add(&mut v, &b, way, k, &mut next);
                    if way == 9 {
                        // the temporary other vector was the last allocation; keep a neighbour behind us again
                    }
                    if v.as_ptr() != p0 || v.capacity() != c0 {
                        rep.violate("C18", format!("C18/vec<u64>/moved-within-reserved-capacity/{}", name), format!("capacity {} len {} after adding {}: buffer moved {} capacity now {}", c0, v.len(), k, v.as_ptr() != p0, v.capacity()));
                        break;
                    }
                }
                // replacing r elements by r others needs no room at all, however full the vector is
                if v.len() >= 2 && v.as_ptr() == p0 {
                    let r = 1 + (next as usize) % (v.len() / 2);
                    let at = (next as usize / 7) % (v.len() - r + 1);
                    let items: Vec<u64> = (0..r as u64).map(|i| 900_000 + i).collect();
                    let removed: Vec<u64> = if way % 2 == 0 { v.splice(at..at + r, items.into_iter()).collect() } else { v.splice(at..at + r, items.into_iter().filter(|_| true)).collect() };
                    if removed.len() != r || v.as_ptr() != p0 || v.capacity() != c0 {
                        rep.violate("C18", "C18/vec<u64>/moved-within-reserved-capacity/splice-same-length", format!("capacity {} len {}: replacing {} elements by {} moved the buffer {} capacity now {}", c0, v.len(), r, r, v.as_ptr() != p0, v.capacity()));
                    }
                }
                // giving elements away (split_off at 0, in the middle, at the end) leaves the reservation where it is
                if v.as_ptr() == p0 && v.capacity() == c0 {
                    let at = [0usize, v.len() / 2, v.len()][(next as usize) % 3];
                    let tail = v.split_off(at);
                    if v.as_ptr() != p0 || v.capacity() != c0 || v.len() != at {
                        rep.violate("C18", "C18/vec<u64>/moved-within-reserved-capacity/split_off", format!("split_off({}) of a vector with capacity {}: buffer moved {} capacity now {}", at, c0, v.as_ptr() != p0, v.capacity()));
                    }
                    drop(tail);
                }
                rep.bump("c18.every_way_reserved_cases");
                rep.evaluations += 1;
                rep.distinct.insert(fnv(fnv(way as u64, cap as u64), 0xE1 + round as u64));
            }
            // (b) growth from nothing
            {
                let b = Bump::new();
                let target = if miri { 60 } else { [300usize, 3000, 20_000][round % 3] };
                let target = if matches!(way, 1 | 2 | 6 | 7) { target.min(3000) } else { target }; // quadratic data movement
                let mut v: BVec<u64> = BVec::new_in(&b);
                let mut next = 1u64;
                let mut changes = 0usize;
                let mut last_cap = v.capacity();
                rep.ctx = format!("C18 every-way vec {} growth to {}", name, target);
                while v.len() < target {
                    let k = rng.range(1, 6) as usize;
                    vec_add(&mut v, &b, way, k, &mut next);
                    if next % 5 == 0 {
                        b.alloc(1u8);
                    }
                    if v.capacity() != last_cap {
                        if v.capacity() < 2 * last_cap && last_cap > 0 {
                            rep.bump("c18.every_way_growth_steps_below_doubling");
                        }
                        changes += 1;
                        last_cap = v.capacity();
                    }
                }
                let bound = 4 + log2f(v.len());
                if changes > bound {
                    rep.violate("C18", format!("C18/vec<u64>/reallocations-not-logarithmic/{}", name), format!("{} capacity changes while growing to {} elements (bound {})", changes, v.len(), bound));
                }
                let occupied = v.len() * 8 + v.len() / 5 + 1;
                if b.allocated_bytes() > 24 * occupied + (16 << 10) && way != 9 {
                    rep.violate("C18", format!("C18/vec<u64>/held-memory-not-within-constant-factor/{}", name), format!("held {} for {} occupied", b.allocated_bytes(), occupied));
                }
                rep.bump("c18.every_way_growth_cases");
                rep.evaluations += 1;
                rep.distinct.insert(fnv(fnv(way as u64, target as u64), 0xE2 + round as u64));
            }
        }
        for way in 0..STR_WAYS.len() {
            let name = STR_WAYS[way];
            let pieces = ["a", "bc", "é", "€", "😀", "xyz", "日本"];
            {
                let b = Bump::new();
                let cap = if miri { rng.range(8, 40) } else { rng.range(8, 600) } as usize;
                let mut s = BString::with_capacity_in(cap, &b);
                let c0 = s.capacity();
                if rng.chance(1, 2) {
                    s.push('t');
                }
                b.alloc(9u8);
                let p0 = s.as_ptr();
                rep.ctx = format!("C18 every-way string {} reserved {}", name, cap);
                loop {
                    let room = c0 - s.len();
                    let fit: Vec<&str> = pieces.iter().copied().filter(|p| p.len() <= room).collect();
                    if fit.is_empty() {
                        break;
                    }
                    let piece = fit[rng.below(fit.len())];
                    str_add(&mut s, way, piece);
                    if s.as_ptr() != p0 || s.capacity() != c0 {
                        rep.violate("C18", format!("C18/string/moved-within-reserved-capacity/{}", name), format!("capacity {} len {} after adding {:?}: buffer moved {} capacity now {}", c0, s.len(), piece, s.as_ptr() != p0, s.capacity()));
                        break;
                    }
                }
                rep.bump("c18.every_way_reserved_cases");
                rep.evaluations += 1;
                rep.distinct.insert(fnv(fnv(way as u64, cap as u64), 0xE3 + round as u64));
            }
            {
                let b = Bump::new();
                let target = if miri { 80 } else { [400usize, 4000, 30_000][round % 3] };
                let target = if matches!(way, 2 | 3 | 4) { target.min(4000) } else { target };
                let mut s = BString::new_in(&b);
                let mut changes = 0usize;
                let mut last_cap = s.capacity();
                let mut i = 0usize;
                rep.ctx = format!("C18 every-way string {} growth to {}", name, target);
                while s.len() < target {
                    let piece = pieces[rng.below(pieces.len())];
                    str_add(&mut s, way, piece);
                    i += 1;
                    if i % 5 == 0 {
                        b.alloc(1u8);
                    }
                    if s.capacity() != last_cap {
                        changes += 1;
                        last_cap = s.capacity();
                    }
                }
                let bound = 4 + log2f(s.len());
                if changes > bound {
                    rep.violate("C18", format!("C18/string/reallocations-not-logarithmic/{}", name), format!("{} capacity changes while growing to {} bytes (bound {})", changes, s.len(), bound));
                }
                if b.allocated_bytes() > 24 * (s.len() + i / 5 + 1) + (16 << 10) {
                    rep.violate("C18", format!("C18/string/held-memory-not-within-constant-factor/{}", name), format!("held {} for {} bytes", b.allocated_bytes(), s.len()));
                }
                rep.bump("c18.every_way_growth_cases");
                rep.evaluations += 1;
                rep.distinct.insert(fnv(fnv(way as u64, target as u64), 0xE4 + round as u64));
            }
        }
    }
}
