//! Small deterministic PRNG (xoshiro256**-like splitmix seeding); identical stream natively and
//! under Miri, no external crate.
#![allow(dead_code)]

#[derive(Clone, Debug)]
pub struct Rng {
    s: [u64; 4],
}

fn splitmix(x: &mut u64) -> u64 {
    *x = x.wrapping_add(0x9E3779B97F4A7C15);
    let mut z = *x;
    z = (z ^ (z >> 30)).wrapping_mul(0xBF58476D1CE4E5B9);
    z = (z ^ (z >> 27)).wrapping_mul(0x94D049BB133111EB);
    z ^ (z >> 31)
}

impl Rng {
    pub fn new(seed: u64) -> Rng {
        let mut x = seed;
        Rng { s: [splitmix(&mut x), splitmix(&mut x), splitmix(&mut x), splitmix(&mut x)] }
    }
    pub fn mix(a: u64, b: u64) -> u64 {
        let mut x = a ^ b.wrapping_mul(0xD6E8FEB86659FD93);
        splitmix(&mut x)
    }
    pub fn next(&mut self) -> u64 {
        let r = self.s[1].wrapping_mul(5).rotate_left(7).wrapping_mul(9);
        let t = self.s[1] << 17;
        self.s[2] ^= self.s[0];
        self.s[3] ^= self.s[1];
        self.s[1] ^= self.s[2];
        self.s[0] ^= self.s[3];
        self.s[2] ^= t;
        self.s[3] = self.s[3].rotate_left(45);
        r
    }
    /// uniform in 0..n (n > 0)
    pub fn below(&mut self, n: usize) -> usize {
        (self.next() % (n as u64)) as usize
    }
    /// uniform in lo..=hi
    pub fn range(&mut self, lo: usize, hi: usize) -> usize {
        lo + self.below(hi - lo + 1)
    }
    pub fn chance(&mut self, num: u32, den: u32) -> bool {
        (self.next() % den as u64) < num as u64
    }
    pub fn pick<'a, T>(&mut self, xs: &'a [T]) -> &'a T {
        &xs[self.below(xs.len())]
    }
    /// weighted pick: returns index
    pub fn weighted(&mut self, w: &[u32]) -> usize {
        let tot: u32 = w.iter().sum();
        let mut r = (self.next() % tot as u64) as u32;
        for (i, &x) in w.iter().enumerate() {
            if r < x {
                return i;
            }
            r -= x;
        }
        w.len() - 1
    }
}
