//! Workload "strdiff" (C14): bumpalo::collections::String against std::string::String, UTF-8
//! validity after every op (also after ops that panicked), and the three decoders against std:
//! exhaustively over all byte strings up to a small length, then by structure, then random.
use crate::arena::last_panic;
use crate::halloc::{self, Env};
use crate::json::J;
use crate::report::{fnv, Report};
use crate::rng::Rng;
use crate::Args;
use bumpalo::collections::{String as BString, Vec as BVec};
use bumpalo::Bump;
use std::ops::Bound;
use std::panic::{catch_unwind, AssertUnwindSafe};

const CHARS: [char; 10] = ['a', 'z', 'é', 'ß', '\u{80}', '\u{ff}', '€', '한', '😀', '\u{10FFFF}'];

type B = (u8, usize);
fn bound(b: B) -> Bound<usize> {
    match b.0 {
        0 => Bound::Unbounded,
        1 => Bound::Included(b.1),
        _ => Bound::Excluded(b.1),
    }
}

#[derive(Clone, Debug)]
enum SOp {
    Push(char),
    PushStr(String),
    Pop,
    Insert(usize, char),
    InsertStr(usize, String),
    Remove(usize),
    Truncate(usize),
    Clear,
    Retain(u8),
    RetainPanic(u8, usize),
    Drain(B, B, usize, bool),
    ReplaceRange(B, B, String),
    SplitOff(usize, bool),
    ExtendChars(String),
    ExtendStrs(Vec<String>),
    CloneSwap,
    Format(u32, String),
    IntoBumpStr,
    FromStrIn(String),
    FromIterIn(String),
    IntoBytesRoundTrip,
    ShrinkToFit,
    Reserve(usize),
    ReserveExact(usize),
    WithCapacity(usize),
    Observers(usize),
    /// Index / IndexMut with every range form at arbitrary byte indices (panic parity with std)
    IndexRange(u8, usize, usize),
    /// Extend with every supported item type, Add / AddAssign, collect_in
    Traits(u8, Vec<String>),
}

fn name(op: &SOp) -> &'static str {
    match op {
        SOp::Push(..) => "push",
        SOp::PushStr(..) => "push_str",
        SOp::Pop => "pop",
        SOp::Insert(..) => "insert",
        SOp::InsertStr(..) => "insert_str",
        SOp::Remove(..) => "remove",
        SOp::Truncate(..) => "truncate",
        SOp::Clear => "clear",
        SOp::Retain(..) => "retain",
        SOp::RetainPanic(..) => "retain-panicking-predicate",
        SOp::Drain(..) => "drain",
        SOp::ReplaceRange(..) => "replace_range",
        SOp::SplitOff(..) => "split_off",
        SOp::ExtendChars(..) => "extend-chars",
        SOp::ExtendStrs(..) => "extend-strs",
        SOp::CloneSwap => "clone",
        SOp::Format(..) => "format!",
        SOp::IntoBumpStr => "into_bump_str",
        SOp::FromStrIn(..) => "from_str_in",
        SOp::FromIterIn(..) => "from_iter_in",
        SOp::IntoBytesRoundTrip => "into_bytes+from_utf8",
        SOp::ShrinkToFit => "shrink_to_fit",
        SOp::Reserve(..) => "reserve",
        SOp::ReserveExact(..) => "reserve_exact",
        SOp::WithCapacity(..) => "with_capacity_in",
        SOp::Observers(..) => "observers",
        SOp::IndexRange(..) => "index-range",
        SOp::Traits(..) => "extend/add/collect-traits",
    }
}

#[derive(Debug, PartialEq, Clone)]
enum SRes {
    Unit,
    Ch(Option<char>),
    Text(String),
    Flag(bool),
}

fn apply_b<'b>(b: &'b Bump, s: &mut BString<'b>, op: &SOp, leaked: &mut Vec<(&'b str, String)>) -> SRes {
    match op {
        SOp::Push(c) => {
            s.push(*c);
            SRes::Unit
        }
        SOp::PushStr(t) => {
            s.push_str(t);
            SRes::Unit
        }
        SOp::Pop => SRes::Ch(s.pop()),
        SOp::Insert(i, c) => {
            s.insert(*i, *c);
            SRes::Unit
        }
        SOp::InsertStr(i, t) => {
            s.insert_str(*i, t);
            SRes::Unit
        }
        SOp::Remove(i) => SRes::Ch(Some(s.remove(*i))),
        SOp::Truncate(n) => {
            s.truncate(*n);
            SRes::Unit
        }
        SOp::Clear => {
            s.clear();
            SRes::Unit
        }
        SOp::Retain(m) => {
            let m = *m as u32;
            let mut seen = String::new();
            s.retain(|c| {
                seen.push(c);
                (c as u32) % m != 0
            });
            SRes::Text(seen)
        }
        SOp::RetainPanic(m, k) => {
            let m = *m as u32;
            let mut calls = 0usize;
            let k = *k;
            s.retain(|c| {
                calls += 1;
                if calls == k {
                    std::panic::panic_any(crate::ledger::FusePanic);
                }
                (c as u32) % m != 0
            });
            SRes::Unit
        }
        SOp::Drain(lo, hi, take, back) => {
            let mut d = s.drain((bound(*lo), bound(*hi)));
            let mut out = String::new();
            for _ in 0..*take {
                let x = if *back { d.next_back() } else { d.next() };
                if let Some(c) = x {
                    out.push(c);
                }
            }
            drop(d);
            SRes::Text(out)
        }
        SOp::ReplaceRange(lo, hi, t) => {
            s.replace_range((bound(*lo), bound(*hi)), t);
            SRes::Unit
        }
        SOp::SplitOff(at, keep_tail) => {
            let tail = s.split_off(*at);
            let r = SRes::Text(tail.as_str().to_string());
            if *keep_tail {
                *s = tail;
            }
            r
        }
        SOp::ExtendChars(t) => {
            s.extend(t.chars());
            SRes::Unit
        }
        SOp::ExtendStrs(ts) => {
            if ts.len() % 2 == 0 {
                s.extend(ts.iter().map(|x| x.as_str()));
            } else {
                s.extend(ts.iter().cloned());
            }
            SRes::Unit
        }
        SOp::CloneSwap => {
            let c = s.clone();
            *s = c;
            SRes::Unit
        }
        SOp::Format(n, t) => {
            use std::fmt::Write;
            let f = bumpalo::format!(in b, "{}-{:?}-{:>5}", n, t, n);
            let _ = write!(s, "{}|{}", f, t);
            // fill characters and char arguments go through fmt::Write::write_char
            let c = t.chars().next().unwrap_or('é');
            let _ = write!(s, "{:é>7}|{:ß^9}|{:€<6}|{}|{:?}|{:>3}", n, n % 97, n % 5, c, c, c);
            use std::fmt::Write as _;
            let _ = s.write_char(c);
            let _ = s.write_char('\u{ff}');
            let _ = s.write_char('\u{80}');
            SRes::Text(f.as_str().to_string())
        }
        SOp::IntoBumpStr => {
            let old = std::mem::replace(s, BString::new_in(b));
            let copy = old.as_str().to_string();
            let st: &'b str = old.into_bump_str();
            leaked.push((st, copy.clone()));
            SRes::Text(copy)
        }
        SOp::FromStrIn(t) => {
            *s = BString::from_str_in(t, b);
            SRes::Unit
        }
        SOp::FromIterIn(t) => {
            *s = BString::from_iter_in(t.chars(), b);
            SRes::Unit
        }
        SOp::IntoBytesRoundTrip => {
            let old = std::mem::replace(s, BString::new_in(b));
            let bytes = old.into_bytes();
            match BString::from_utf8(bytes) {
                Ok(x) => {
                    *s = x;
                    SRes::Flag(true)
                }
                Err(_) => SRes::Flag(false),
            }
        }
        SOp::ShrinkToFit => {
            s.shrink_to_fit();
            SRes::Unit
        }
        SOp::Reserve(n) => {
            s.reserve(*n);
            SRes::Flag(s.capacity() >= s.len() + n)
        }
        SOp::ReserveExact(n) => {
            s.reserve_exact(*n);
            SRes::Flag(s.capacity() >= s.len() + n)
        }
        SOp::WithCapacity(n) => {
            *s = BString::with_capacity_in(*n, b);
            SRes::Flag(s.capacity() >= *n)
        }
        SOp::IndexRange(form, a, c) => {
            let (a, c) = (*a, *c);
            let t: &str = match form {
                0 => &s[a..c],
                1 => &s[..c],
                2 => &s[a..],
                3 => &s[..],
                4 => &s[a..=c],
                _ => &s[..=c],
            };
            let out = t.to_string();
            // IndexMut goes through the same checks
            let m: &mut str = match form {
                0 => &mut s[a..c],
                1 => &mut s[..c],
                2 => &mut s[a..],
                3 => &mut s[..],
                4 => &mut s[a..=c],
                _ => &mut s[..=c],
            };
            m.make_ascii_uppercase();
            SRes::Text(out)
        }
        SOp::Traits(which, ts) => {
            use std::borrow::Cow;
            match which {
                0 => s.extend(ts.iter().flat_map(|t| t.chars())),
                1 => {
                    let cs: Vec<char> = ts.iter().flat_map(|t| t.chars()).collect();
                    s.extend(cs.iter());
                }
                2 => s.extend(ts.iter().map(|t| t.as_str())),
                3 => s.extend(ts.iter().map(|t| BString::from_str_in(t, b))),
                4 => s.extend(ts.iter().cloned()),
                5 => s.extend(ts.iter().map(|t| if t.len() % 2 == 0 { Cow::Borrowed(t.as_str()) } else { Cow::Owned(t.clone()) })),
                6 => {
                    let old = std::mem::replace(s, BString::new_in(b));
                    let mut n = old;
                    for t in ts {
                        n = n + t.as_str();
                    }
                    *s = n;
                }
                7 => {
                    for t in ts {
                        *s += t.as_str();
                    }
                }
                _ => {
                    use bumpalo::collections::CollectIn;
                    let n: BString = ts.iter().flat_map(|t| t.chars()).collect_in(b);
                    *s = n;
                }
            }
            let eq = *s == s.as_str().to_string() && s.as_str() == &**s && *s == *s.as_str() && *s == std::borrow::Cow::Borrowed(s.as_str());
            let r: &str = std::borrow::Borrow::borrow(&*s);
            let a: &[u8] = s.as_ref();
            SRes::Text(format!("{}|{}|{}", eq, r.len(), a.len()))
        }
        SOp::Observers(i) => {
            let t = format!(
                "{}|{:?}|{}|{}|{:?}|{:?}|{}",
                s,
                s,
                s.len(),
                s.is_empty(),
                s.as_str().char_indices().nth(*i % 5),
                s.as_bytes().get(*i),
                s.as_str() == &**s && *s == s.as_str() && s.as_str() == *s
            );
            SRes::Text(t)
        }
    }
}

fn apply_s(s: &mut String, op: &SOp) -> SRes {
    match op {
        SOp::Push(c) => {
            s.push(*c);
            SRes::Unit
        }
        SOp::PushStr(t) => {
            s.push_str(t);
            SRes::Unit
        }
        SOp::Pop => SRes::Ch(s.pop()),
        SOp::Insert(i, c) => {
            s.insert(*i, *c);
            SRes::Unit
        }
        SOp::InsertStr(i, t) => {
            s.insert_str(*i, t);
            SRes::Unit
        }
        SOp::Remove(i) => SRes::Ch(Some(s.remove(*i))),
        SOp::Truncate(n) => {
            s.truncate(*n);
            SRes::Unit
        }
        SOp::Clear => {
            s.clear();
            SRes::Unit
        }
        SOp::Retain(m) => {
            let m = *m as u32;
            let mut seen = String::new();
            s.retain(|c| {
                seen.push(c);
                (c as u32) % m != 0
            });
            SRes::Text(seen)
        }
        SOp::RetainPanic(m, k) => {
            let m = *m as u32;
            let mut calls = 0usize;
            let k = *k;
            s.retain(|c| {
                calls += 1;
                if calls == k {
                    std::panic::panic_any(crate::ledger::FusePanic);
                }
                (c as u32) % m != 0
            });
            SRes::Unit
        }
        SOp::Drain(lo, hi, take, back) => {
            let mut d = s.drain((bound(*lo), bound(*hi)));
            let mut out = String::new();
            for _ in 0..*take {
                let x = if *back { d.next_back() } else { d.next() };
                if let Some(c) = x {
                    out.push(c);
                }
            }
            drop(d);
            SRes::Text(out)
        }
        SOp::ReplaceRange(lo, hi, t) => {
            s.replace_range((bound(*lo), bound(*hi)), t);
            SRes::Unit
        }
        SOp::SplitOff(at, keep_tail) => {
            let tail = s.split_off(*at);
            let r = SRes::Text(tail.clone());
            if *keep_tail {
                *s = tail;
            }
            r
        }
        SOp::ExtendChars(t) => {
            s.extend(t.chars());
            SRes::Unit
        }
        SOp::ExtendStrs(ts) => {
            s.extend(ts.iter().map(|x| x.as_str()));
            SRes::Unit
        }
        SOp::CloneSwap => {
            let c = s.clone();
            *s = c;
            SRes::Unit
        }
        SOp::Format(n, t) => {
            use std::fmt::Write;
            let f = format!("{}-{:?}-{:>5}", n, t, n);
            let _ = write!(s, "{}|{}", f, t);
            let c = t.chars().next().unwrap_or('é');
            let _ = write!(s, "{:é>7}|{:ß^9}|{:€<6}|{}|{:?}|{:>3}", n, n % 97, n % 5, c, c, c);
            let _ = s.write_char(c);
            let _ = s.write_char('\u{ff}');
            let _ = s.write_char('\u{80}');
            SRes::Text(f)
        }
        SOp::IntoBumpStr => {
            let old = std::mem::take(s);
            SRes::Text(old)
        }
        SOp::FromStrIn(t) => {
            *s = t.clone();
            SRes::Unit
        }
        SOp::FromIterIn(t) => {
            *s = t.chars().collect();
            SRes::Unit
        }
        SOp::IntoBytesRoundTrip => {
            let old = std::mem::take(s);
            *s = String::from_utf8(old.into_bytes()).unwrap();
            SRes::Flag(true)
        }
        SOp::ShrinkToFit => {
            s.shrink_to_fit();
            SRes::Unit
        }
        SOp::Reserve(_) | SOp::ReserveExact(_) => SRes::Flag(true),
        SOp::WithCapacity(n) => {
            *s = String::with_capacity(*n);
            SRes::Flag(true)
        }
        SOp::IndexRange(form, a, c) => {
            let (a, c) = (*a, *c);
            let t: &str = match form {
                0 => &s[a..c],
                1 => &s[..c],
                2 => &s[a..],
                3 => &s[..],
                4 => &s[a..=c],
                _ => &s[..=c],
            };
            let out = t.to_string();
            let m: &mut str = match form {
                0 => &mut s[a..c],
                1 => &mut s[..c],
                2 => &mut s[a..],
                3 => &mut s[..],
                4 => &mut s[a..=c],
                _ => &mut s[..=c],
            };
            m.make_ascii_uppercase();
            SRes::Text(out)
        }
        SOp::Traits(which, ts) => {
            match which {
                8 => {
                    *s = ts.iter().flat_map(|t| t.chars()).collect();
                }
                _ => {
                    for t in ts {
                        s.push_str(t);
                    }
                }
            }
            SRes::Text(format!("{}|{}|{}", true, s.len(), s.len()))
        }
        SOp::Observers(i) => {
            let t = format!(
                "{}|{:?}|{}|{}|{:?}|{:?}|{}",
                s,
                s,
                s.len(),
                s.is_empty(),
                s.as_str().char_indices().nth(*i % 5),
                s.as_bytes().get(*i),
                true
            );
            SRes::Text(t)
        }
    }
}

fn gen_text(rng: &mut Rng, max: usize) -> String {
    (0..rng.below(max + 1)).map(|_| CHARS[rng.below(CHARS.len())]).collect()
}
fn gen_idx(rng: &mut Rng, len: usize) -> usize {
    match rng.below(10) {
        0 => 0,
        1 => len,
        2 => len + 1,
        3 => len + 2,
        4 => usize::MAX,
        _ => rng.below(len + 1),
    }
}
fn gen_bound(rng: &mut Rng, len: usize) -> B {
    let k = match rng.below(6) {
        0 | 1 => 0u8,
        2 | 3 => 1,
        _ => 2,
    };
    (k, if rng.chance(1, 16) { usize::MAX } else { gen_idx(rng, len) })
}

fn gen_op(rng: &mut Rng, len: usize) -> SOp {
    match rng.below(46) {
        0..=5 => SOp::Push(CHARS[rng.below(CHARS.len())]),
        6..=8 => SOp::PushStr(gen_text(rng, 6)),
        9..=10 => SOp::Pop,
        11..=14 => SOp::Insert(gen_idx(rng, len), CHARS[rng.below(CHARS.len())]),
        15..=17 => SOp::InsertStr(gen_idx(rng, len), gen_text(rng, 4)),
        18..=21 => SOp::Remove(gen_idx(rng, len)),
        22..=24 => SOp::Truncate(gen_idx(rng, len)),
        25 => SOp::Clear,
        26..=27 => {
            if rng.chance(1, 3) {
                SOp::RetainPanic(rng.range(1, 5) as u8, rng.range(1, 8))
            } else {
                SOp::Retain(rng.range(1, 5) as u8)
            }
        }
        28..=31 => SOp::Drain(gen_bound(rng, len), gen_bound(rng, len), rng.below(4), rng.chance(1, 3)),
        32..=35 => SOp::ReplaceRange(gen_bound(rng, len), gen_bound(rng, len), gen_text(rng, 5)),
        36..=37 => SOp::SplitOff(gen_idx(rng, len), rng.chance(1, 2)),
        38 => SOp::ExtendChars(gen_text(rng, 6)),
        39 => SOp::ExtendStrs((0..rng.below(4)).map(|_| gen_text(rng, 3)).collect()),
        40 => match rng.below(5) {
            0 => SOp::CloneSwap,
            1 => SOp::Format(rng.below(1000) as u32, gen_text(rng, 4)),
            2 => SOp::IntoBumpStr,
            3 => SOp::FromStrIn(gen_text(rng, 8)),
            _ => SOp::FromIterIn(gen_text(rng, 8)),
        },
        41 => match rng.below(5) {
            0 => SOp::IntoBytesRoundTrip,
            1 => SOp::ShrinkToFit,
            2 => SOp::Reserve(rng.below(100)),
            3 => SOp::ReserveExact(rng.below(100)),
            _ => SOp::WithCapacity(rng.below(64)),
        },
        42 => SOp::IndexRange(rng.below(6) as u8, gen_idx(rng, len), gen_idx(rng, len)),
        43 => SOp::Traits(rng.below(9) as u8, (0..rng.below(4)).map(|_| gen_text(rng, 3)).collect()),
        _ => SOp::Observers(gen_idx(rng, len).min(1 << 20)),
    }
}

fn programs(args: &Args, rep: &mut Report) {
    let mut top = Rng::new(Rng::mix(args.seed ^ 0xC14, args.shard));
    for it in 0..args.iters {
        let pseed = top.next();
        let mut rng = Rng::new(pseed);
        Env::from_seed(pseed >> 8, args.instrumented).apply(pseed);
        halloc::set_always(true);
        let bump = Bump::new();
        let b = &bump;
        let mut bs = BString::new_in(b);
        let mut ss = String::new();
        let mut leaked: Vec<(&str, String)> = Vec::new();
        let mut neighbours: Vec<(BVec<u8>, u8)> = Vec::new();
        let mut sig = 0u64;
        for opi in 0..args.ops {
            rep.ctx = format!("strdiff program {} op {} (seed {} shard {})", it, opi, args.seed, args.shard);
            if rng.chance(1, 10) {
                let byte = rng.below(200) as u8 + 1;
                let mut v = BVec::new_in(b);
                v.resize(rng.range(1, 30), byte);
                neighbours.push((v, byte));
                continue;
            }
            let op = gen_op(&mut rng, ss.len());
            let n = name(&op);
            sig = fnv(sig, n.len() as u64 * 7 + n.as_bytes()[0] as u64);
            rep.bump(&format!("sop.{}", n));
            let rb = catch_unwind(AssertUnwindSafe(|| apply_b(b, &mut bs, &op, &mut leaked)));
            let mb = if rb.is_err() { last_panic() } else { String::new() };
            let rs = {
                let _p = halloc::pause();
                catch_unwind(AssertUnwindSafe(|| apply_s(&mut ss, &op)))
            };
            let ms = if rs.is_err() { last_panic() } else { String::new() };
            rep.bump("c14.ops");
            match (&rb, &rs) {
                (Ok(a), Ok(c)) => {
                    if a != c {
                        rep.violate("C14", format!("C14/string/{}/returned-value-differs-from-std", n), format!("bumpalo {:?} std {:?} (op {:?})", a, c, op));
                    }
                    if let SRes::Flag(false) = a {
                        rep.violate("C14", format!("C14/string/{}/capacity-below-promise-or-roundtrip-failed", n), format!("{:?}", op));
                    }
                }
                (Err(_), Err(_)) => rep.bump("c14.ops_panicking_on_both_sides"),
                (Ok(a), Err(_)) => rep.violate("C14", format!("C14/string/{}/std-panics-bumpalo-returns", n), format!("bumpalo returned {:?}; std: {} (op {:?} on {:?})", a, ms, op, ss)),
                (Err(_), Ok(c)) => rep.violate("C14", format!("C14/string/{}/bumpalo-panics-std-returns", n), format!("std returned {:?}; bumpalo: {} (op {:?} on {:?})", c, mb, op, ss)),
            }
            // validity and equality after every op, panicking or not
            match std::str::from_utf8(bs.as_bytes()) {
                Err(e) => {
                    rep.violate("C14", format!("C14/string/{}/invalid-utf8", n), format!("bytes {:x?} ({}) after op {:?}", &bs.as_bytes()[..bs.len().min(24)], e, op));
                    bs = BString::from_str_in(&ss, b);
                }
                Ok(t) => {
                    if t != ss.as_str() {
                        rep.violate("C14", format!("C14/string/{}/contents-differ-from-std", n), format!("bumpalo {:?} std {:?} (op {:?})", t, ss, op));
                        bs = BString::from_str_in(&ss, b);
                    }
                }
            }
            if bs.capacity() < bs.len() {
                rep.violate("C14", format!("C14/string/{}/capacity-below-len", n), String::new());
            }
            {
                for (st, copy) in &leaked {
                    if *st != copy.as_str() {
                        rep.violate("C14", "C14/string/into_bump_str/leaked-str-changed", String::new());
                        rep.violate("C02", "C02/into_bump_str/contents-of-the-returned-str-changed-by-a-later-operation", String::new());
                    }
                }
                for (v, byte) in &neighbours {
                    if v.iter().any(|x| x != byte) {
                        rep.violate("C14", "C14/string/neighbour-changed", String::new());
                    }
                }
            }
            if rep.violations.len() >= rep.max_violations {
                break;
            }
        }
        halloc::set_always(false);
        rep.evaluations += 1;
        rep.distinct.insert(sig);
        if it == 0 {
            let mut j = J::obj();
            j.set("program_seed", J::i(pseed));
            j.set("alphabet", J::s("a z é ß € 한 😀 U+10FFFF (1-4 byte characters); indices 0..=len+2 and usize::MAX, boundary or not; all range forms"));
            rep.sample(j);
        }
        if rep.violations.len() >= rep.max_violations {
            break;
        }
    }
}

// ------------------------------------------------------------------------------------------------
// decoders

fn check_bytes(rep: &mut Report, b: &Bump, bytes: &[u8]) {
    // from_utf8
    let std_r = std::str::from_utf8(bytes);
    let mut v = BVec::with_capacity_in(bytes.len(), b);
    v.extend_from_slice_copy(bytes);
    match (BString::from_utf8(v), std_r) {
        (Ok(s), Ok(t)) => {
            if s.as_str() != t {
                rep.violate("C14", "C14/from_utf8/text-differs", format!("{:x?}", bytes));
            }
        }
        (Err(e), Err(se)) => {
            let ue = e.utf8_error();
            if ue.valid_up_to() != se.valid_up_to() || ue.error_len() != se.error_len() {
                rep.violate("C14", "C14/from_utf8/error-position-differs", format!("{:x?}: {:?} vs {:?}", bytes, ue, se));
            }
            if e.as_bytes() != bytes || &e.into_bytes()[..] != bytes {
                rep.violate("C14", "C14/from_utf8/error-does-not-return-input", format!("{:x?}", bytes));
            }
        }
        (Ok(_), Err(_)) => rep.violate("C14", "C14/from_utf8/accepts-input-std-rejects", format!("{:x?}", bytes)),
        (Err(_), Ok(_)) => rep.violate("C14", "C14/from_utf8/rejects-input-std-accepts", format!("{:x?}", bytes)),
    }
    // lossy (with an older live block right next to where the result will be placed)
    let canary = b.alloc_slice_fill_copy(16, 0xC5u8) as *const [u8];
    let l = BString::from_utf8_lossy_in(bytes, b);
    if unsafe { (&*canary).iter().any(|x| *x != 0xC5) } {
        rep.violate("C02", "C02/from_utf8_lossy_in/older-live-block-changed", format!("input {:x?}", bytes));
        rep.violate("C14", "C14/from_utf8_lossy_in/neighbour-changed", format!("input {:x?}", bytes));
    }
    if l.len() > l.capacity() {
        rep.violate("C14", "C14/from_utf8_lossy_in/length-above-capacity", format!("input {:x?}: len {} capacity {}", bytes, l.len(), l.capacity()));
        rep.violate("C02", "C02/from_utf8_lossy_in/text-written-outside-the-buffer", format!("input {:x?}: len {} capacity {}", bytes, l.len(), l.capacity()));
    }
    let sl = String::from_utf8_lossy(bytes);
    if l.as_bytes() != sl.as_bytes() {
        let sig = if std::str::from_utf8(l.as_bytes()).is_err() { "C14/from_utf8_lossy_in/produces-invalid-utf8" } else { "C14/from_utf8_lossy_in/repair-differs-from-std" };
        rep.violate("C14", sig, format!("input {:x?}: bumpalo {:x?} std {:x?}", bytes, l.as_bytes(), sl.as_bytes()));
    }
}

fn check_u16(rep: &mut Report, b: &Bump, units: &[u16]) {
    let r = BString::from_utf16_in(units, b);
    let sr = String::from_utf16(units);
    match (r, sr) {
        (Ok(s), Ok(t)) => {
            if s.as_str() != t.as_str() {
                rep.violate("C14", "C14/from_utf16_in/text-differs", format!("{:x?}", units));
            }
        }
        (Err(_), Err(_)) => {}
        (Ok(_), Err(_)) => rep.violate("C14", "C14/from_utf16_in/accepts-input-std-rejects", format!("{:x?}", units)),
        (Err(_), Ok(_)) => rep.violate("C14", "C14/from_utf16_in/rejects-input-std-accepts", format!("{:x?}", units)),
    }
}

fn decoders(args: &Args, rep: &mut Report) {
    let maxlen = args.get_usize("exh", 2);
    let part = args.get_usize("part", 0);
    let parts = args.get_usize("parts", 1);
    let mut b = Bump::new();
    let mut n = 0u64;
    // exhaustive over all byte strings of length <= maxlen (sharded by first byte)
    for len in 0..=maxlen {
        let total: u64 = 256u64.pow(len as u32);
        for x in 0..total {
            if len > 0 && ((x >> (8 * (len - 1))) as usize) % parts != part {
                continue;
            }
            if len == 0 && part != 0 {
                continue;
            }
            let mut buf = [0u8; 4];
            for i in 0..len {
                buf[i] = (x >> (8 * (len - 1 - i))) as u8;
            }
            check_bytes(rep, &b, &buf[..len]);
            n += 1;
            if n % 4096 == 0 {
                b.reset();
                if rep.violations.len() >= rep.max_violations {
                    return;
                }
            }
        }
    }
    rep.add("c14.decoder_exhaustive_inputs", n);
    rep.evaluations += n;
    rep.max("max_exhaustive_len", maxlen as u64);
    // structured: every lead byte class x boundary continuation bytes x truncation, embedded in context
    let leads: Vec<u8> = vec![0x00, 0x41, 0x7f, 0x80, 0xbf, 0xc0, 0xc1, 0xc2, 0xdf, 0xe0, 0xe1, 0xec, 0xed, 0xee, 0xef, 0xf0, 0xf1, 0xf3, 0xf4, 0xf5, 0xf7, 0xf8, 0xff];
    let conts: Vec<u8> = vec![0x00, 0x7f, 0x80, 0x8f, 0x90, 0x9f, 0xa0, 0xbf, 0xc0, 0xff];
    let mut m = 0u64;
    if part == 0 {
        for &l in &leads {
            for &c1 in &conts {
                for &c2 in &conts {
                    for &c3 in &conts {
                        let full = [l, c1, c2, c3];
                        for cut in 1..=4 {
                            for ctx in 0..3 {
                                let mut v: Vec<u8> = Vec::new();
                                if ctx >= 1 {
                                    v.extend_from_slice("é".as_bytes());
                                }
                                v.extend_from_slice(&full[..cut]);
                                if ctx == 2 {
                                    v.extend_from_slice(b"z\xF0\x9F");
                                }
                                check_bytes(rep, &b, &v);
                                m += 1;
                            }
                        }
                    }
                    b.reset();
                }
            }
        }
    }
    // long ASCII runs with one or two interesting bytes at every position (block-wise fast paths)
    if part == 0 {
        let special: Vec<u8> = vec![0x7f, 0x80, 0x81, 0xbf, 0xc0, 0xc2, 0xdf, 0xe0, 0xed, 0xf0, 0xf4, 0xf5, 0xff];
        for len in 1..=26usize {
            for pos in 0..len {
                for &x in &special {
                    let mut v: Vec<u8> = (0..len).map(|i| b'a' + (i % 26) as u8).collect();
                    v[pos] = x;
                    check_bytes(rep, &b, &v);
                    m += 1;
                    if pos + 1 < len {
                        for &y in &[0x80u8, 0xbf, 0xa0] {
                            v[pos + 1] = y;
                            check_bytes(rep, &b, &v);
                            m += 1;
                        }
                    }
                }
            }
            b.reset();
        }
    }
    rep.add("c14.decoder_structured_inputs", m);
    rep.evaluations += m;
    // random long inputs: valid text with random corruption
    let mut rng = Rng::new(Rng::mix(args.seed ^ 0xDEC, args.shard));
    let mut r = 0u64;
    for _ in 0..args.get_usize("random", 2000) {
        let mut v: Vec<u8> = gen_text(&mut rng, 40).into_bytes();
        for _ in 0..rng.below(4) {
            if v.is_empty() {
                break;
            }
            let i = rng.below(v.len());
            match rng.below(3) {
                0 => v[i] = rng.below(256) as u8,
                1 => {
                    v.remove(i);
                }
                _ => v.insert(i, rng.below(256) as u8),
            }
        }
        check_bytes(rep, &b, &v);
        r += 1;
        // utf16
        let mut u: Vec<u16> = gen_text(&mut rng, 20).encode_utf16().collect();
        for _ in 0..rng.below(3) {
            if u.is_empty() {
                break;
            }
            let i = rng.below(u.len());
            match rng.below(3) {
                0 => u[i] = [0xD800u16, 0xDBFF, 0xDC00, 0xDFFF, 0x41, 0xFFFF][rng.below(6)],
                1 => {
                    u.remove(i);
                }
                _ => u.insert(i, 0xD800 + rng.below(0x800) as u16),
            }
        }
        check_u16(rep, &b, &u);
        if r % 512 == 0 {
            b.reset();
        }
    }
    rep.add("c14.decoder_random_inputs", r);
    rep.evaluations += r;
    // utf16 by class, all sequences up to length 3 over boundary units
    let units: Vec<u16> = vec![0x0000, 0x0041, 0x007f, 0x0080, 0x07ff, 0x0800, 0xd7ff, 0xd800, 0xd801, 0xdbfe, 0xdbff, 0xdc00, 0xdc01, 0xdffe, 0xdfff, 0xe000, 0xfffd, 0xffff];
    let mut u = 0u64;
    if part == 0 {
        for &a in &units {
            check_u16(rep, &b, &[a]);
            for &c in &units {
                check_u16(rep, &b, &[a, c]);
                for &d in &units {
                    check_u16(rep, &b, &[a, c, d]);
                    u += 1;
                }
            }
            b.reset();
        }
        check_u16(rep, &b, &[]);
    }
    rep.add("c14.decoder_utf16_class_inputs", u);
    rep.evaluations += u;
    rep.distinct.insert(fnv(n, m));
    rep.distinct.insert(fnv(r, u + 1));
    let mut j = J::obj();
    j.set("decoders", J::s(format!("all byte strings of length <= {} (part {}/{}), 23 lead bytes x 10^3 continuation triples x 4 truncations x 3 contexts, ASCII runs of length 1..26 with 13 special bytes (and a following continuation byte) at every position, random corrupted text, 18 boundary UTF-16 units in all sequences of length <= 3", maxlen, part, parts)));
    rep.sample(j);
}

pub fn run(args: &Args, rep: &mut Report) {
    if args.get_usize("decoders", 0) == 1 {
        decoders(args, rep);
    } else {
        programs(args, rep);
    }
}
