//! C12 (second half): standard collections parameterised by the arena behave exactly as with the
//! global allocator.  allocator_api2::vec::Vec<T,&Bump<M>> / boxed::Box<T,&Bump<M>> run the same
//! random program as std's Vec / Box; contents, lengths and results are compared after every op,
//! while the arena engine (shadow + ledger monitors) performs native allocations, Allocator calls,
//! limit changes and refusals in between as neighbours / canaries.
use crate::arena::*;
use crate::gen::{self, Profile};
use crate::halloc::{self, Env, Refuse};
use crate::json::J;
use crate::ops::*;
use crate::report::{fnv, Report};
use crate::rng::Rng;
use crate::Args;
use allocator_api2::boxed::Box as ABox;
use allocator_api2::vec::Vec as AVec;
use bumpalo::Bump;
use std::mem::{align_of, size_of};

trait PairOps {
    fn step(&mut self, rng: &mut Rng, rep: &mut Report) -> u64;
    fn check(&self, rep: &mut Report, what: &str);
    fn name(&self) -> &'static str;
}

struct VecPair<T: Copy + PartialEq + 'static, const M: usize> {
    a: AVec<T, &'static Bump<M>>,
    s: Vec<T>,
    b: &'static Bump<M>,
    next: u32,
    name: &'static str,
}

impl<T: Copy + PartialEq + 'static, const M: usize> VecPair<T, M> {
    fn new(b: &'static Bump<M>, name: &'static str) -> Self {
        VecPair { a: AVec::new_in(b), s: Vec::new(), b, next: 1, name }
    }
    fn val(&mut self) -> T {
        self.next += 1;
        unsafe { from_pat::<T>(self.next, 0) }
    }
}

impl<T: Copy + PartialEq + 'static, const M: usize> PairOps for VecPair<T, M> {
    fn name(&self) -> &'static str {
        self.name
    }
    fn check(&self, rep: &mut Report, what: &str) {
        if self.a.as_slice() != self.s.as_slice() {
            let i = (0..self.a.len().min(self.s.len())).find(|&i| self.a[i] != self.s[i]);
            rep.violate("C12", format!("C12/a2vec<{}>/{}/contents-differ-from-global-allocator-vec", self.name, what), format!("len {} vs {}, first differing index {:?}", self.a.len(), self.s.len(), i));
        }
        if self.a.capacity() < self.a.len() {
            rep.violate("C12", format!("C12/a2vec<{}>/{}/capacity-below-len", self.name, what), String::new());
        }
        let p = self.a.as_ptr() as usize;
        if p % align_of::<T>() != 0 {
            rep.violate("C12", format!("C12/a2vec<{}>/{}/buffer-misaligned", self.name, what), format!("{:#x}", p));
        }
        rep.bump("c12.diff_checks");
    }
    fn step(&mut self, rng: &mut Rng, rep: &mut Report) -> u64 {
        let len = self.s.len();
        let k = rng.below(22);
        let what: &str;
        match k {
            0..=4 => {
                what = "push";
                let v = self.val();
                self.a.push(v);
                {
                    let _p = halloc::pause();
                    self.s.push(v);
                }
            }
            5 => {
                what = "pop";
                if self.a.pop() != self.s.pop() {
                    rep.violate("C12", format!("C12/a2vec<{}>/pop/result-differs", self.name), String::new());
                }
            }
            6 => {
                what = "insert";
                let i = rng.below(len + 1);
                let v = self.val();
                self.a.insert(i, v);
                {
                    let _p = halloc::pause();
                    self.s.insert(i, v);
                }
            }
            7 => {
                what = "remove";
                if len > 0 {
                    let i = rng.below(len);
                    if self.a.remove(i) != self.s.remove(i) {
                        rep.violate("C12", format!("C12/a2vec<{}>/remove/result-differs", self.name), String::new());
                    }
                }
            }
            8 => {
                what = "truncate";
                let n = rng.below(len + 2);
                self.a.truncate(n);
                {
                    let _p = halloc::pause();
                    self.s.truncate(n);
                }
            }
            9 => {
                what = "resize";
                let n = rng.below(len * 2 + 8);
                let v = self.val();
                self.a.resize(n, v);
                {
                    let _p = halloc::pause();
                    self.s.resize(n, v);
                }
            }
            10 | 11 => {
                what = "extend_from_slice";
                let big = rng.chance(1, 6);
                let n = rng.below(if big { 300 } else { 20 });
                let vs: Vec<T> = {
                    let _p = halloc::pause();
                    (0..n).map(|_| self.val()).collect()
                };
                self.a.extend_from_slice(&vs);
                {
                    let _p = halloc::pause();
                    self.s.extend_from_slice(&vs);
                }
            }
            12 => {
                what = "reserve";
                let n = rng.below(200);
                self.a.reserve(n);
                {
                    let _p = halloc::pause();
                    self.s.reserve(n);
                }
                if self.a.capacity() < self.a.len() + n {
                    rep.violate("C12", format!("C12/a2vec<{}>/reserve/capacity-not-honoured", self.name), String::new());
                }
            }
            13 => {
                what = "reserve_exact";
                let n = rng.below(64);
                self.a.reserve_exact(n);
                {
                    let _p = halloc::pause();
                    self.s.reserve_exact(n);
                }
            }
            14 => {
                what = "shrink_to_fit";
                self.a.shrink_to_fit();
                {
                    let _p = halloc::pause();
                    self.s.shrink_to_fit();
                }
            }
            15 => {
                what = "shrink_to";
                let n = rng.below(len + 10);
                self.a.shrink_to(n);
                {
                    let _p = halloc::pause();
                    self.s.shrink_to(n);
                }
            }
            16 => {
                what = "swap_remove";
                if len > 0 {
                    let i = rng.below(len);
                    if self.a.swap_remove(i) != self.s.swap_remove(i) {
                        rep.violate("C12", format!("C12/a2vec<{}>/swap_remove/result-differs", self.name), String::new());
                    }
                }
            }
            17 => {
                what = "split_off+append";
                let at = rng.below(len + 1);
                let mut ta = self.a.split_off(at);
                let mut ts = {
                    let _p = halloc::pause();
                    self.s.split_off(at)
                };
                if ta.as_slice() != ts.as_slice() {
                    rep.violate("C12", format!("C12/a2vec<{}>/split_off/tail-differs", self.name), String::new());
                }
                if rng.chance(2, 3) {
                    self.a.append(&mut ta);
                    {
                        let _p = halloc::pause();
                        self.s.append(&mut ts);
                    }
                }
            }
            18 => {
                what = "into_boxed_slice+into_vec";
                let a = std::mem::replace(&mut self.a, AVec::new_in(self.b));
                let bx: ABox<[T], &'static Bump<M>> = a.into_boxed_slice();
                if &*bx != self.s.as_slice() {
                    rep.violate("C12", format!("C12/a2box<{}>/into_boxed_slice/contents-differ", self.name), String::new());
                }
                self.a = bx.into_vec();
            }
            19 => {
                what = "clone+drop-original";
                let c = self.a.clone();
                self.a = c;
            }
            20 => {
                what = "try_reserve-under-refusal";
                let n = 5000 + rng.below(100000);
                halloc::set_refuse(Refuse::All);
                let r = self.a.try_reserve(n);
                halloc::set_refuse(Refuse::None);
                rep.bump(if r.is_ok() { "c12.try_reserve_ok" } else { "c12.try_reserve_err" });
            }
            _ => {
                what = "drain+retain";
                if len > 0 {
                    let lo = rng.below(len);
                    let hi = lo + rng.below(len - lo + 1);
                    let (da, ds): (Vec<T>, Vec<T>) = {
                        let _p = halloc::pause();
                        (self.a.drain(lo..hi).collect(), self.s.drain(lo..hi).collect())
                    };
                    if da != ds {
                        rep.violate("C12", format!("C12/a2vec<{}>/drain/items-differ", self.name), String::new());
                    }
                    {
                        let _p = halloc::pause();
                        drop((da, ds));
                    }
                    let mut i = 0;
                    self.a.retain(|_| {
                        i += 1;
                        i % 3 != 0
                    });
                    let mut j = 0;
                    self.s.retain(|_| {
                        j += 1;
                        j % 3 != 0
                    });
                }
            }
        }
        self.check(rep, what);
        k as u64
    }
}

pub fn run(args: &Args, rep: &mut Report) {
    crate::dispatch_ma!(args.ma, run_m, args, rep)
}

fn run_m<const M: usize>(args: &Args, rep: &mut Report) {
    let mut top = Rng::new(Rng::mix(args.seed ^ 0xC12, args.shard ^ ((M as u64) << 40)));
    // neighbours: everything except ops that would invalidate the collections' arena reference
    let mut profile = Profile::allocator();
    profile.w[9] = 0; // reset
    profile.w[13] = 0; // reconstruct
    profile.w[15] = 0; // drop on thread
    profile.w[16] = 0;
    profile.w[10] = 0; // no limits: an infallible collection method would abort the process, like std
    profile.max_size = 2000;
    for it in 0..args.iters {
        let hseed = top.next();
        Env::from_seed(hseed >> 8, args.instrumented).apply(hseed);
        crate::ledger::reset();
        rep.ctx = format!("C12 diff program {} (seed {} shard {} M {})", it, args.seed, args.shard, M);
        let cap = if hseed & 1 == 0 { None } else { Some(((hseed >> 20) % 3000) as usize) };
        let mut s = match Sim::<M>::new(hseed, rep, cap, false) {
            Some(s) => s,
            None => continue,
        };
        s.verify_every = 1;
        let b: &'static Bump<M> = unsafe { &*(&**s.bump as *const Bump<M>) };
        let mut sig = 0u64;
        {
            let mut pairs: Vec<Box<dyn PairOps>> = vec![
                Box::new(VecPair::<u64, M>::new(b, "u64")),
                Box::new(VecPair::<u8, M>::new(b, "u8")),
                Box::new(VecPair::<[u8; 24], M>::new(b, "[u8;24]")),
                Box::new(VecPair::<u128, M>::new(b, "u128")),
                Box::new(VecPair::<[u16; 5], M>::new(b, "[u16;5]")),
            ];
            // boxes as further neighbours
            let mut boxes: Vec<(ABox<[u64; 4], &'static Bump<M>>, [u64; 4])> = Vec::new();
            for opi in 0..args.ops {
                rep.ctx = format!("C12 diff program {} op {} (seed {} shard {} M {})", it, opi, args.seed, args.shard, M);
                let r = s.rng.below(10);
                if r < 6 {
                    let i = s.rng.below(pairs.len());
                    let mut rng = Rng::new(s.rng.next());
                    s.cur = format!("a2vec<{}> op", pairs[i].name());
                    s.begin();
                    let k = pairs[i].step(&mut rng, rep);
                    let ev = s.end(rep, OpKind::Alloc);
                    s.after_op(rep, OpKind::Alloc, &ev);
                    sig = fnv(sig, k * 8 + i as u64);
                } else if r < 7 {
                    let v = [s.rng.next(), 2, 3, s.rng.next()];
                    if boxes.len() < 20 {
                        s.cur = "a2box new_in".into();
                        s.begin();
                        let bx = ABox::new_in(v, b);
                        let ev = s.end(rep, OpKind::Alloc);
                        s.after_op(rep, OpKind::Alloc, &ev);
                        boxes.push((bx, v));
                    } else {
                        let i = s.rng.below(boxes.len());
                        let (bx, want) = boxes.swap_remove(i);
                        if *bx != want {
                            rep.violate("C12", "C12/a2box/contents-changed", String::new());
                        }
                    }
                } else {
                    let (k, _) = gen::step(&mut s, rep, &profile);
                    sig = fnv(sig, 1000 + k as u64);
                }
                if opi % 8 == 0 {
                    for p in pairs.iter() {
                        p.check(rep, "neighbour-activity");
                    }
                    for (bx, want) in boxes.iter() {
                        if **bx != *want {
                            rep.violate("C12", "C12/a2box/contents-changed", String::new());
                        }
                    }
                }
                if rep.violations.len() >= rep.max_violations {
                    break;
                }
            }
            for p in pairs.iter() {
                p.check(rep, "end");
            }
            // collections are dropped here (deallocate in arbitrary order), inside a window
            s.cur = "drop collections".into();
            s.begin();
            drop(pairs);
            drop(boxes);
            let ev = s.end(rep, OpKind::Dealloc);
            s.after_op(rep, OpKind::Dealloc, &ev);
        }
        let obs = s.observe();
        s.verify_all(rep, &obs);
        s.drop_arena(rep);
        rep.evaluations += 1;
        rep.distinct.insert(sig);
        if it == 0 {
            let mut j = J::obj();
            j.set("program_seed", J::i(hseed));
            j.set("min_align", J::i(M as u64));
            j.set("shape", J::s("5 allocator_api2 Vecs (u64,u8,[u8;24],u128,[u16;5]) + boxes in one Bump<M>, each mirrored by a std Vec; 60% vector ops (22 kinds), 10% box ops, 30% native arena ops as neighbours"));
            rep.sample(j);
        }
        if rep.violations.len() >= rep.max_violations {
            break;
        }
    }
    let _ = size_of::<u8>();
}
