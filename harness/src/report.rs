//! Shard report: violations (with address/seed independent signatures), measured coverage
//! counters, distinct-case hashes and written-out samples.  Printed as one JSON line.
#![allow(dead_code)]
use crate::json::J;
use std::collections::{BTreeMap, BTreeSet};

#[derive(Clone, Debug)]
pub struct Violation {
    pub prop: &'static str,
    /// structured, address- and seed-independent signature
    pub sig: String,
    /// free text with concrete numbers (addresses, ids) for the witness
    pub detail: String,
    /// index of the history / program and op at which it was observed
    pub at: String,
}

#[derive(Default)]
pub struct Report {
    pub violations: Vec<Violation>,
    pub counters: BTreeMap<String, u64>,
    /// distinct non-trivial case hashes
    pub distinct: BTreeSet<u64>,
    /// distinct fast-path situations (alignment branch x outcome x size class x finger residue x align x MIN_ALIGN)
    pub paths: BTreeSet<u64>,
    pub evaluations: u64,
    pub samples: Vec<J>,
    pub notes: Vec<String>,
    pub inconclusive: Vec<String>,
    pub ctx: String,
    pub max_violations: usize,
}

impl Report {
    pub fn new() -> Report {
        Report { max_violations: 40, ..Default::default() }
    }
    pub fn bump(&mut self, k: &str) {
        self.add(k, 1);
    }
    pub fn add(&mut self, k: &str, n: u64) {
        // no allocation on the hot path (matters under Miri)
        if let Some(v) = self.counters.get_mut(k) {
            *v += n;
        } else {
            self.counters.insert(k.to_string(), n);
        }
    }
    pub fn max(&mut self, k: &str, n: u64) {
        let e = self.counters.entry(k.to_string()).or_insert(0);
        if n > *e {
            *e = n;
        }
    }
    pub fn violate(&mut self, prop: &'static str, sig: impl Into<String>, detail: impl Into<String>) {
        let sig = sig.into();
        self.bump(&format!("violations.{}", prop));
        // keep at most a few per signature
        let same = self.violations.iter().filter(|v| v.sig == sig).count();
        if same >= 3 || self.violations.len() >= self.max_violations {
            return;
        }
        self.violations.push(Violation { prop, sig, detail: detail.into(), at: self.ctx.clone() });
    }
    pub fn sample(&mut self, j: J) {
        if self.samples.len() < 4 {
            self.samples.push(j);
        }
    }
    pub fn to_json(&self) -> J {
        let mut o = J::obj();
        o.set("evaluations", J::i(self.evaluations));
        o.set("distinct", J::i(self.distinct.len() as u64));
        // export a bounded number of the hashes so the driver can union across shards
        o.set(
            "distinct_hashes",
            J::Arr(self.distinct.iter().take(20000).map(|h| J::s(format!("{:x}", h))).collect()),
        );
        let mut c = J::obj();
        if !self.paths.is_empty() {
            c.set("max_distinct_fast_path_situations_in_one_shard", J::i(self.paths.len() as u64));
        }
        for (k, v) in &self.counters {
            c.set(k, J::i(*v));
        }
        o.set("counters", c);
        o.set("samples", J::Arr(self.samples.clone()));
        o.set("notes", J::Arr(self.notes.iter().map(|s| J::s(s.clone())).collect()));
        o.set("inconclusive", J::Arr(self.inconclusive.iter().map(|s| J::s(s.clone())).collect()));
        o.set(
            "violations",
            J::Arr(
                self.violations
                    .iter()
                    .map(|v| {
                        let mut x = J::obj();
                        x.set("prop", J::s(v.prop));
                        x.set("sig", J::s(v.sig.clone()));
                        x.set("detail", J::s(v.detail.clone()));
                        x.set("at", J::s(v.at.clone()));
                        x
                    })
                    .collect(),
            ),
        );
        o
    }
}

pub fn fnv(h: u64, x: u64) -> u64 {
    let mut h = h ^ x;
    h = h.wrapping_mul(0x100000001b3);
    h ^ (h >> 29)
}
