//! The hostile global allocator: a ledger of everything bumpalo asks of the outside world and,
//! at the same time, a hostile environment (refusal schedules, minimal alignment, junk fill,
//! scribble-on-free, quarantine, size cap).
//!
//! It never allocates itself.  Per-thread state lives in const-initialised thread locals with no
//! destructors; the only shared state (the block table) is protected by a spin lock built from an
//! atomic, so that it is race-free under TSan / Miri.
#![allow(dead_code)]

use std::alloc::{GlobalAlloc, Layout, System};
use std::cell::{Cell, UnsafeCell};
use std::sync::atomic::{AtomicBool, AtomicU64, AtomicUsize, Ordering};

pub const EV_ALLOC: u8 = 0;
pub const EV_DEALLOC: u8 = 1;

pub const RES_OK: u8 = 0;
pub const RES_REFUSED_SCHED: u8 = 1;
pub const RES_REFUSED_CAP: u8 = 2;
pub const RES_SYSTEM_NULL: u8 = 3;
/// dealloc of a tracked block with a layout different from the one it was allocated with
pub const RES_BAD_LAYOUT: u8 = 4;
/// dealloc of a tracked block that was already freed (still in quarantine)
pub const RES_DOUBLE_FREE: u8 = 5;

#[derive(Clone, Copy, Debug)]
pub struct Event {
    pub kind: u8,
    pub res: u8,
    /// arena candidate (align >= 16, size >= 48, size % 16 == 0)
    pub cand: bool,
    pub size: usize,
    pub align: usize,
    pub ptr: usize,
    /// for RES_BAD_LAYOUT: the layout the block was allocated with
    pub orig_size: usize,
    pub orig_align: usize,
    pub seq: u64,
}

const EMPTY_EVENT: Event = Event {
    kind: 0,
    res: 0,
    cand: false,
    size: 0,
    align: 0,
    ptr: 0,
    orig_size: 0,
    orig_align: 0,
    seq: 0,
};

#[cfg(not(miri))]
pub const RING: usize = 2048;
/// the retry loop in bumpalo halves the chunk size, so it can legitimately ask at most ~64 times
pub const RUNAWAY_LIMIT: u32 = 200;
#[cfg(miri)]
pub const RING: usize = 256;

/// Refusal schedules (apply to arena candidates inside a window only).
#[derive(Clone, Copy, Debug, PartialEq, Eq)]
pub enum Refuse {
    None,
    /// refuse the k-th candidate request counted from `arm()` (1-based)
    Kth(u64),
    /// refuse every candidate strictly larger than this size
    Above(usize),
    /// refuse every candidate
    All,
    /// refuse with probability num/256, xorshift state
    Prob(u8),
    /// refuse every candidate from the k-th on
    FromKth(u64),
}

struct Tls {
    in_window: Cell<bool>,
    paused: Cell<u32>,
    refuse: Cell<Refuse>,
    cand_counter: Cell<u64>,
    prob_state: Cell<u64>,
    cap: Cell<usize>,
    skew: Cell<u8>, // 0 = off, 1 = exactly-aligned (addr % 2a == a), 2 = random odd multiple within a page
    skew_state: Cell<u64>,
    junk: Cell<bool>,
    scribble: Cell<bool>,
    quarantine: Cell<bool>,
    track: Cell<bool>,
    n: Cell<usize>,
    overflow: Cell<bool>,
    ring: UnsafeCell<[Event; RING]>,
    // statistics over the whole thread lifetime
    total_cand_allocs: Cell<u64>,
    total_refused: Cell<u64>,
    win_refused: Cell<u32>,
    runaway: Cell<bool>,
    /// apply the environment (skew / junk / scribble / cap / refusals) outside windows too, without recording
    always: Cell<bool>,
}

thread_local! {
    static TLS: Tls = const { Tls {
        in_window: Cell::new(false),
        paused: Cell::new(0),
        refuse: Cell::new(Refuse::None),
        cand_counter: Cell::new(0),
        prob_state: Cell::new(0x9E3779B97F4A7C15),
        cap: Cell::new(usize::MAX),
        skew: Cell::new(0),
        skew_state: Cell::new(0x2545F4914F6CDD1D),
        junk: Cell::new(false),
        scribble: Cell::new(false),
        quarantine: Cell::new(false),
        track: Cell::new(true),
        n: Cell::new(0),
        overflow: Cell::new(false),
        ring: UnsafeCell::new([EMPTY_EVENT; RING]),
        total_cand_allocs: Cell::new(0),
        total_refused: Cell::new(0),
        win_refused: Cell::new(0),
        runaway: Cell::new(false),
        always: Cell::new(false),
    } };
}

static SEQ: AtomicU64 = AtomicU64::new(1);

// ---------------------------------------------------------------------------------------------
// progress heartbeat for the in-process watchdog (a stuck call is *inconclusive*, never a verdict;
// the watchdog only makes the report faster and names the call)
static PROGRESS: AtomicU64 = AtomicU64::new(0);
static IN_CALL: AtomicUsize = AtomicUsize::new(0);
static OPNAME_LEN: AtomicUsize = AtomicUsize::new(0);
#[allow(clippy::declare_interior_mutable_const)]
const ZERO_BYTE: std::sync::atomic::AtomicU8 = std::sync::atomic::AtomicU8::new(0);
static OPNAME: [std::sync::atomic::AtomicU8; 96] = [ZERO_BYTE; 96];

/// remember the name of the call about to be made (best effort, racy by design: diagnostics only)
pub fn note_op(name: &str) {
    let b = name.as_bytes();
    let n = b.len().min(96);
    for i in 0..n {
        OPNAME[i].store(b[i], Ordering::Relaxed);
    }
    OPNAME_LEN.store(n, Ordering::Release);
}

/// Start a watchdog thread: if no window opens or closes for `secs` seconds while a call is in
/// progress, print `WATCHDOG ...` and exit with status 3 (the driver reports it as inconclusive).
pub fn start_watchdog(secs: u64) {
    if cfg!(miri) {
        return;
    }
    std::thread::spawn(move || {
        let mut last = PROGRESS.load(Ordering::Relaxed);
        let mut stale = 0u64;
        loop {
            std::thread::sleep(std::time::Duration::from_secs(5));
            let now = PROGRESS.load(Ordering::Relaxed);
            if now != last || IN_CALL.load(Ordering::Relaxed) == 0 {
                last = now;
                stale = 0;
                continue;
            }
            stale += 5;
            if stale >= secs {
                let n = OPNAME_LEN.load(Ordering::Acquire);
                let bytes: Vec<u8> = (0..n.min(96)).map(|i| OPNAME[i].load(Ordering::Relaxed)).collect();
                let name = String::from_utf8_lossy(&bytes).to_string();
                eprintln!("WATCHDOG: a call into bumpalo did not return within {} s of wall clock: `{}`", secs, name);
                println!("{{\"watchdog\":true}}");
                std::process::exit(3);
            }
        }
    });
}

#[inline]
pub fn is_candidate(size: usize, align: usize) -> bool {
    align >= 16 && size >= 48 && size % 16 == 0
}

// ---------------------------------------------------------------------------------------------
// Block table: returned pointer -> real System block.  Open addressing, linear probing,
// backward-shift deletion.  Protected by a spin lock.

#[derive(Clone, Copy)]
struct Entry {
    key: usize, // returned pointer, 0 = empty
    base: *mut u8,
    real_size: usize,
    real_align: usize,
    req_size: usize,
    req_align: usize,
    freed: bool,
}
const EMPTY_ENTRY: Entry = Entry {
    key: 0,
    base: std::ptr::null_mut(),
    real_size: 0,
    real_align: 0,
    req_size: 0,
    req_align: 0,
    freed: false,
};
#[cfg(not(miri))]
const TBITS: usize = 16;
#[cfg(miri)]
const TBITS: usize = 9;
const TSIZE: usize = 1 << TBITS;

struct Table {
    lock: AtomicBool,
    live: AtomicUsize,
    slots: UnsafeCell<[Entry; TSIZE]>,
    // quarantine FIFO of freed keys
    q: UnsafeCell<[usize; QN]>,
    q_head: UnsafeCell<usize>,
    q_len: UnsafeCell<usize>,
    q_bytes: UnsafeCell<usize>,
}
#[cfg(not(miri))]
const QN: usize = 512;
#[cfg(miri)]
const QN: usize = 64;
const Q_MAX_BYTES: usize = 48 << 20;
unsafe impl Sync for Table {}

static TABLE: Table = Table {
    lock: AtomicBool::new(false),
    live: AtomicUsize::new(0),
    slots: UnsafeCell::new([EMPTY_ENTRY; TSIZE]),
    q: UnsafeCell::new([0; QN]),
    q_head: UnsafeCell::new(0),
    q_len: UnsafeCell::new(0),
    q_bytes: UnsafeCell::new(0),
};

#[inline]
fn hash(p: usize) -> usize {
    ((p >> 4).wrapping_mul(0x9E3779B97F4A7C15usize)) >> (64 - TBITS)
}

struct Guard;
impl Guard {
    fn lock() -> Guard {
        while TABLE
            .lock
            .compare_exchange_weak(false, true, Ordering::Acquire, Ordering::Relaxed)
            .is_err()
        {
            std::hint::spin_loop();
        }
        Guard
    }
}
impl Drop for Guard {
    fn drop(&mut self) {
        TABLE.lock.store(false, Ordering::Release);
    }
}

unsafe fn t_find(slots: &mut [Entry; TSIZE], key: usize) -> Option<usize> {
    let mut i = hash(key);
    loop {
        let e = &slots[i];
        if e.key == 0 {
            return None;
        }
        if e.key == key {
            return Some(i);
        }
        i = (i + 1) & (TSIZE - 1);
    }
}

unsafe fn t_insert(slots: &mut [Entry; TSIZE], ent: Entry) -> bool {
    if TABLE.live.load(Ordering::Relaxed) > TSIZE / 2 {
        return false;
    }
    let mut i = hash(ent.key);
    loop {
        if slots[i].key == 0 {
            slots[i] = ent;
            TABLE.live.fetch_add(1, Ordering::Relaxed);
            return true;
        }
        i = (i + 1) & (TSIZE - 1);
    }
}

unsafe fn t_remove(slots: &mut [Entry; TSIZE], mut i: usize) {
    // backward shift deletion
    let mask = TSIZE - 1;
    let mut j = i;
    loop {
        j = (j + 1) & mask;
        if slots[j].key == 0 {
            break;
        }
        let k = hash(slots[j].key);
        // is k cyclically in (i, j]? if so it can stay
        let stay = if i <= j { i < k && k <= j } else { i < k || k <= j };
        if !stay {
            slots[i] = slots[j];
            i = j;
        }
    }
    slots[i] = EMPTY_ENTRY;
    TABLE.live.fetch_sub(1, Ordering::Relaxed);
}

// ---------------------------------------------------------------------------------------------

pub struct Hostile;

#[inline]
fn next_xs(c: &Cell<u64>) -> u64 {
    let mut x = c.get();
    x ^= x << 13;
    x ^= x >> 7;
    x ^= x << 17;
    c.set(x);
    x
}

fn record(t: &Tls, ev: Event) {
    if !t.in_window.get() {
        return;
    }
    let n = t.n.get();
    if n >= RING {
        t.overflow.set(true);
        return;
    }
    unsafe {
        (*t.ring.get())[n] = ev;
    }
    t.n.set(n + 1);
}

unsafe impl GlobalAlloc for Hostile {
    unsafe fn alloc(&self, layout: Layout) -> *mut u8 {
        let size = layout.size();
        let align = layout.align();
        let r = TLS.try_with(|t| {
            let active = (t.in_window.get() || t.always.get()) && t.paused.get() == 0;
            if !active {
                return None;
            }
            let cand = is_candidate(size, align);
            let seq = SEQ.fetch_add(1, Ordering::Relaxed);
            if !cand {
                // foreign in-window allocation (panic machinery etc.): recorded, never refused
                let p = System.alloc(layout);
                record(
                    t,
                    Event {
                        kind: EV_ALLOC,
                        res: if p.is_null() { RES_SYSTEM_NULL } else { RES_OK },
                        cand,
                        size,
                        align,
                        ptr: p as usize,
                        orig_size: 0,
                        orig_align: 0,
                        seq,
                    },
                );
                return Some(p);
            }
            t.total_cand_allocs.set(t.total_cand_allocs.get() + 1);
            let k = t.cand_counter.get() + 1;
            t.cand_counter.set(k);
            let mut res = RES_OK;
            if size > t.cap.get() {
                res = RES_REFUSED_CAP;
            } else {
                let refuse = match t.refuse.get() {
                    Refuse::None => false,
                    Refuse::Kth(n) => k == n,
                    Refuse::FromKth(n) => k >= n,
                    Refuse::Above(s) => size > s,
                    Refuse::All => true,
                    Refuse::Prob(p) => (next_xs(&t.prob_state) & 0xff) < p as u64,
                };
                if refuse {
                    // bounded-progress guard (C09): a single call that has already been refused
                    // RUNAWAY_LIMIT times is not going to stop asking; honour the request from
                    // here on so that the process survives, and flag the window.
                    if t.win_refused.get() >= RUNAWAY_LIMIT {
                        t.runaway.set(true);
                    } else {
                        t.win_refused.set(t.win_refused.get() + 1);
                        res = RES_REFUSED_SCHED;
                    }
                }
            }
            if res != RES_OK {
                t.total_refused.set(t.total_refused.get() + 1);
                record(
                    t,
                    Event {
                        kind: EV_ALLOC,
                        res,
                        cand,
                        size,
                        align,
                        ptr: 0,
                        orig_size: 0,
                        orig_align: 0,
                        seq,
                    },
                );
                return Some(std::ptr::null_mut());
            }
            // honour the request, possibly skewed
            let skew = t.skew.get();
            let (p, base, real_size, real_align) = if skew == 0 || align > (1 << 20) {
                let p = System.alloc(layout);
                (p, p, size, align)
            } else {
                let big = if skew == 2 && align < 4096 {
                    4096
                } else if skew == 3 {
                    // deterministic placement: addr % 8192 == align whatever System returns
                    (align * 2).max(8192)
                } else {
                    align * 2
                };
                let off = if big == align * 2 || skew == 3 {
                    align
                } else {
                    // odd multiple of align below `big`
                    let slots = big / align / 2; // number of odd multiples
                    let j = (next_xs(&t.skew_state) as usize) % slots;
                    align * (2 * j + 1)
                };
                match Layout::from_size_align(size + big, big) {
                    Ok(l) => {
                        let b = System.alloc(l);
                        if b.is_null() {
                            (b, b, 0, 0)
                        } else {
                            (b.add(off), b, size + big, big)
                        }
                    }
                    Err(_) => (std::ptr::null_mut(), std::ptr::null_mut(), 0, 0),
                }
            };
            if p.is_null() {
                record(
                    t,
                    Event {
                        kind: EV_ALLOC,
                        res: RES_SYSTEM_NULL,
                        cand,
                        size,
                        align,
                        ptr: 0,
                        orig_size: 0,
                        orig_align: 0,
                        seq,
                    },
                );
                return Some(p);
            }
            if t.junk.get() {
                std::ptr::write_bytes(p, 0xA5, size);
            }
            if t.track.get() {
                let _g = Guard::lock();
                let slots = &mut *TABLE.slots.get();
                // a stale freed entry with the same key may still sit in quarantine only if the
                // memory was not really released, in which case System cannot hand it out again.
                let ok = t_insert(
                    slots,
                    Entry {
                        key: p as usize,
                        base,
                        real_size,
                        real_align,
                        req_size: size,
                        req_align: align,
                        freed: false,
                    },
                );
                if !ok {
                    t.overflow.set(true);
                    if base != p {
                        // the table is full: a skewed block could not be found again when it is
                        // freed, so hand out a plain System block instead (untracked)
                        drop(_g);
                        System.dealloc(base, Layout::from_size_align_unchecked(real_size, real_align));
                        let q = System.alloc(layout);
                        record(
                            t,
                            Event {
                                kind: EV_ALLOC,
                                res: if q.is_null() { RES_SYSTEM_NULL } else { RES_OK },
                                cand,
                                size,
                                align,
                                ptr: q as usize,
                                orig_size: 0,
                                orig_align: 0,
                                seq,
                            },
                        );
                        return Some(q);
                    }
                }
            } else if base != p {
                // skew without tracking is not supported: fall back is impossible, flag it
                t.overflow.set(true);
            }
            record(
                t,
                Event {
                    kind: EV_ALLOC,
                    res: RES_OK,
                    cand,
                    size,
                    align,
                    ptr: p as usize,
                    orig_size: 0,
                    orig_align: 0,
                    seq,
                },
            );
            Some(p)
        });
        match r {
            Ok(Some(p)) => p,
            _ => System.alloc(layout),
        }
    }

    unsafe fn dealloc(&self, ptr: *mut u8, layout: Layout) {
        let size = layout.size();
        let align = layout.align();
        // look the pointer up in the table whenever the table is not empty
        let mut handled = false;
        let mut res = RES_OK;
        let mut orig = (0usize, 0usize);
        let mut tracked = false;
        if TABLE.live.load(Ordering::Relaxed) != 0 {
            let (scribble, quarantine) = TLS
                .try_with(|t| (t.scribble.get(), t.quarantine.get()))
                .unwrap_or((false, false));
            let _g = Guard::lock();
            let slots = &mut *TABLE.slots.get();
            if let Some(i) = t_find(slots, ptr as usize) {
                tracked = true;
                let e = slots[i];
                orig = (e.req_size, e.req_align);
                if e.freed {
                    res = RES_DOUBLE_FREE;
                    handled = true; // swallow
                } else {
                    if e.req_size != size || e.req_align != align {
                        res = RES_BAD_LAYOUT;
                    }
                    if scribble {
                        std::ptr::write_bytes(ptr, 0xDD, e.req_size);
                    }
                    if quarantine {
                        slots[i].freed = true;
                        let q = &mut *TABLE.q.get();
                        let head = &mut *TABLE.q_head.get();
                        let len = &mut *TABLE.q_len.get();
                        let bytes = &mut *TABLE.q_bytes.get();
                        // evict until there is room
                        while *len >= QN || (*len > 0 && *bytes + e.real_size > Q_MAX_BYTES) {
                            let old = q[*head];
                            *head = (*head + 1) % QN;
                            *len -= 1;
                            if let Some(j) = t_find(slots, old) {
                                let oe = slots[j];
                                *bytes -= oe.real_size;
                                t_remove(slots, j);
                                System.dealloc(
                                    oe.base,
                                    Layout::from_size_align_unchecked(oe.real_size, oe.real_align),
                                );
                            }
                        }
                        let tail = (*head + *len) % QN;
                        q[tail] = ptr as usize;
                        *len += 1;
                        *bytes += e.real_size;
                    } else {
                        t_remove(slots, i);
                        System.dealloc(
                            e.base,
                            Layout::from_size_align_unchecked(e.real_size, e.real_align),
                        );
                    }
                    handled = true;
                }
            }
        }
        let _ = TLS.try_with(|t| {
            let active = t.in_window.get() && t.paused.get() == 0;
            if active {
                let seq = SEQ.fetch_add(1, Ordering::Relaxed);
                record(
                    t,
                    Event {
                        kind: EV_DEALLOC,
                        res,
                        cand: tracked || is_candidate(size, align),
                        size,
                        align,
                        ptr: ptr as usize,
                        orig_size: orig.0,
                        orig_align: orig.1,
                        seq,
                    },
                );
            }
        });
        if !handled {
            System.dealloc(ptr, layout);
        }
    }
}

// ---------------------------------------------------------------------------------------------
// Harness-facing API

/// Open an observation window on this thread; clears the event ring.
pub fn op_begin() {
    PROGRESS.fetch_add(1, Ordering::Relaxed);
    IN_CALL.fetch_add(1, Ordering::Relaxed);
    TLS.with(|t| {
        t.n.set(0);
        t.win_refused.set(0);
        t.runaway.set(false);
        t.in_window.set(true);
    });
}

/// Close the window and return the events recorded in it.
pub fn op_end() -> Vec<Event> {
    PROGRESS.fetch_add(1, Ordering::Relaxed);
    IN_CALL.fetch_sub(1, Ordering::Relaxed);
    TLS.with(|t| {
        t.in_window.set(false);
        let n = t.n.get();
        let mut v = Vec::with_capacity(n);
        unsafe {
            v.extend_from_slice(&(*t.ring.get())[..n]);
        }
        t.n.set(0);
        v
    })
}

/// Close the window, returning only the number of candidate events (cheap path).
pub fn op_end_into(v: &mut Vec<Event>) {
    PROGRESS.fetch_add(1, Ordering::Relaxed);
    IN_CALL.fetch_sub(1, Ordering::Relaxed);
    TLS.with(|t| {
        t.in_window.set(false);
        let n = t.n.get();
        v.clear();
        unsafe {
            v.extend_from_slice(&(*t.ring.get())[..n]);
        }
        t.n.set(0);
    })
}

pub fn window_open() -> bool {
    TLS.with(|t| t.in_window.get())
}

/// Pause/unpause recording and fault injection (harness bookkeeping inside callbacks).
pub struct Pause(());
pub fn pause() -> Pause {
    TLS.with(|t| t.paused.set(t.paused.get() + 1));
    Pause(())
}
impl Drop for Pause {
    fn drop(&mut self) {
        let _ = TLS.try_with(|t| t.paused.set(t.paused.get() - 1));
    }
}

/// A new call into the arena starts inside the current window (harness closures that allocate
/// call this): the bounded-retry counter is per call, not per window.
pub fn new_call_in_window() {
    let _ = TLS.try_with(|t| t.win_refused.set(0));
}

/// did the last window exceed the bounded number of refused requests in one call?
pub fn runaway() -> bool {
    TLS.with(|t| t.runaway.get())
}

/// true once if the event ring or the block table overflowed since the last call (then cleared)
pub fn overflowed() -> bool {
    TLS.with(|t| t.overflow.replace(false))
}

pub fn set_refuse(r: Refuse) {
    TLS.with(|t| {
        t.refuse.set(r);
        t.cand_counter.set(0);
    });
}
pub fn arm_counter() {
    TLS.with(|t| t.cand_counter.set(0));
}
pub fn cand_counter() -> u64 {
    TLS.with(|t| t.cand_counter.get())
}
pub fn set_prob_seed(s: u64) {
    TLS.with(|t| t.prob_state.set(s | 1));
}
pub fn set_cap(c: usize) {
    TLS.with(|t| t.cap.set(c));
}
pub fn set_skew(mode: u8, seed: u64) {
    TLS.with(|t| {
        t.skew.set(mode);
        t.skew_state.set(seed | 1);
    });
}
pub fn set_always(a: bool) {
    TLS.with(|t| t.always.set(a));
}
pub fn set_junk(j: bool) {
    TLS.with(|t| t.junk.set(j));
}
pub fn set_scribble(j: bool) {
    TLS.with(|t| t.scribble.set(j));
}
pub fn set_quarantine(j: bool) {
    TLS.with(|t| t.quarantine.set(j));
}
pub fn totals() -> (u64, u64) {
    TLS.with(|t| (t.total_cand_allocs.get(), t.total_refused.get()))
}

/// Environment description applied per shard.
#[derive(Clone, Copy, Debug)]
pub struct Env {
    pub skew: u8,
    pub junk: bool,
    pub scribble: bool,
    pub quarantine: bool,
    pub cap: usize,
}
impl Env {
    pub const PLAIN: Env = Env { skew: 0, junk: false, scribble: false, quarantine: false, cap: 64 << 20 };
    pub fn apply(&self, seed: u64) {
        set_skew(self.skew, seed ^ 0xABCDEF);
        set_junk(self.junk);
        set_scribble(self.scribble);
        set_quarantine(self.quarantine);
        set_cap(self.cap);
        set_refuse(Refuse::None);
    }
    /// hostile native environment chosen from a seed; under Miri junk/scribble/quarantine stay off
    /// so that the interpreter keeps seeing uninitialised reads and use-after-free by itself.
    pub fn from_seed(seed: u64, instrumented: bool) -> Env {
        let skew = (seed % 3) as u8;
        if instrumented {
            Env { skew, junk: false, scribble: false, quarantine: false, cap: 64 << 20 }
        } else {
            Env { skew, junk: true, scribble: true, quarantine: true, cap: 64 << 20 }
        }
    }
}
