//! C11: systematic steering of the fallible-initialiser entry points.  For every MIN_ALIGN, value
//! type, entry point (alloc_try_with / try_alloc_try_with / slice try_fill_with / try_fill_iter),
//! initialiser behaviour (allocates nothing / allocates and keeps / allocates and releases) and
//! every amount of space left in the current chunk from 0 to slot size + 24 (so that the reserved
//! slot lands in the current chunk with every padding, exactly fits, or forces a new chunk), with
//! and without a refusing global allocator: the monitors inside the engine check error delivery
//! (drop ledger), the closure-call counter, the "same layout again costs no global-allocator call"
//! probe and the integrity of blocks the initialiser kept.
use crate::arena::*;
use crate::halloc::{self, Env, Refuse};
use crate::json::J;
use crate::ops::*;
use crate::report::{fnv, Report};
use crate::rng::Rng;
use crate::Args;
use std::mem::{align_of, size_of};

fn slot_layout(ty: usize) -> (usize, usize) {
    macro_rules! sl {
        ($t:ty) => {
            (size_of::<Result<$t, crate::ledger::Tracked>>(), align_of::<Result<$t, crate::ledger::Tracked>>())
        };
    }
    match ty {
        0 => sl!(u8),
        2 => sl!(u32),
        3 => sl!(u64),
        4 => sl!(u128),
        6 => sl!([u8; 24]),
        7 => sl!(A32),
        9 => sl!([u64; 40]),
        10 => sl!(()),
        13 => sl!([u32; 300]),
        _ => sl!(u8),
    }
}

pub fn run(args: &Args, rep: &mut Report) {
    crate::dispatch_ma!(args.ma, run_m, args, rep)
}

fn run_m<const M: usize>(args: &Args, rep: &mut Report) {
    let mut rng = Rng::new(Rng::mix(args.seed ^ 0xC11, args.shard));
    let types = [0usize, 2, 3, 4, 6, 7, 9, 10, 13];
    let stride = args.get_usize("stride", 1);
    let mut case = 0u64;
    for &ty in &types {
        let (ssz, sal) = slot_layout(ty);
        for fallible in [false, true] {
            for inner in 0u8..3 {
                let mut left = 0usize;
                while left <= ssz + 24 + sal {
                    case += 1;
                    if case % (stride as u64) != (args.shard % stride as u64) {
                        left += 1;
                        continue;
                    }
                    for refuse in [false, true] {
                        let hseed = rng.next();
                        let env = Env::from_seed(hseed, args.instrumented);
                        env.apply(hseed);
                        crate::ledger::reset();
                        rep.ctx = format!("C11 case ty={} slot=({},{}) fallible={} inner={} left={} refuse={} M={}", ty, ssz, sal, fallible, inner, left, refuse, M);
                        let cap0 = match hseed % 3 {
                            0 => None,
                            1 => Some((ssz * 2 + 100).min(6000)),
                            _ => Some(((hseed >> 8) % 2000) as usize + 1),
                        };
                        let mut s = match Sim::<M>::new(hseed, rep, cap0, false) {
                            Some(s) => s,
                            None => continue,
                        };
                        // a first allocation so that the arena owns a chunk, plus a canary neighbour
                        s.op_alloc_layout(rep, 24, 8, false);
                        // leave exactly `left` bytes (rounded to what M allows)
                        let cap = s.bump.chunk_capacity();
                        let want_left = left / M * M;
                        if cap > want_left {
                            s.op_alloc_layout(rep, cap - want_left, 1, false);
                        }
                        let have = s.bump.chunk_capacity();
                        if refuse {
                            halloc::set_refuse(Refuse::All);
                        }
                        let out = s.op_try_with(rep, ty, fallible, false, inner, true);
                        halloc::set_refuse(Refuse::None);
                        rep.evaluations += 1;
                        rep.distinct.insert(fnv(fnv(ty as u64, (fallible as u64) * 4 + inner as u64), fnv(have as u64, (refuse as u64) << 8 | out as u64) ^ (M as u64) << 50));
                        rep.bump(match out {
                            Outcome::Ok => "c11.case_ok",
                            Outcome::Err => "c11.case_err",
                            Outcome::Panic => "c11.case_panic",
                        });
                        // keep using the arena: a success case and a slice case on the same arena
                        s.op_try_with(rep, ty, fallible, true, 0, false);
                        let len = 1 + (hseed as usize >> 20) % 6;
                        s.op_slice_try_fill(rep, 3, len, Some((hseed as usize >> 30) % len), hseed & 1 == 0, true);
                        s.op_iter(rep);
                        s.drop_arena(rep);
                        if rep.violations.len() >= rep.max_violations {
                            return;
                        }
                    }
                    left += 1;
                }
            }
        }
    }
    // slice flavours: every (len, fail index) for small lens, space left around the slice size
    for &ty in &[0usize, 3, 4, 6] {
        let (esz, _) = type_layout(ty);
        for len in 1..=6usize {
            for fail in 0..len {
                for iter in [false, true] {
                    for delta in [-9isize, -1, 0, 1, 8, 17, 40] {
                        case += 1;
                        if case % (stride as u64) != (args.shard % stride as u64) {
                            continue;
                        }
                        let hseed = rng.next();
                        Env::from_seed(hseed, args.instrumented).apply(hseed);
                        crate::ledger::reset();
                        rep.ctx = format!("C11 slice case ty={} len={} fail={} iter={} delta={} M={}", ty, len, fail, iter, delta, M);
                        let mut s = match Sim::<M>::new(hseed, rep, None, false) {
                            Some(s) => s,
                            None => continue,
                        };
                        s.op_alloc_layout(rep, 16, 8, false);
                        let cap = s.bump.chunk_capacity();
                        let want_left = ((esz * len) as isize + delta).max(0) as usize / M * M;
                        if cap > want_left {
                            s.op_alloc_layout(rep, cap - want_left, 1, false);
                        }
                        s.slice_inner = (case % 3) as u8;
                        s.op_slice_try_fill(rep, ty, len, Some(fail), iter, true);
                        s.slice_inner = 0;
                        // later allocations must not land on blocks the failed initialiser kept
                        s.op_alloc_layout(rep, 48, 8, true);
                        s.op_alloc_layout(rep, 48, 8, true);
                        s.op_slice_try_fill(rep, ty, len, None, iter, true);
                        rep.evaluations += 1;
                        rep.distinct.insert(fnv(fnv(ty as u64 + 100, len as u64 * 8 + fail as u64), (delta + 20) as u64 * 2 + iter as u64 ^ (M as u64) << 50));
                        s.drop_arena(rep);
                    }
                }
            }
        }
    }
    let mut j = J::obj();
    j.set("enumeration", J::s("types {u8,u32,u64,u128,[u8;24],A32,[u64;40],(),[u32;300]} x {alloc_try_with,try_alloc_try_with} x initialiser {nothing,alloc+keep,alloc+release} x space-left 0..=slot+24+align x {allocator ok, allocator refuses all}; slices: 4 element types x len 1..6 x every fail index x {with,iter} x 7 space deltas"));
    j.set("min_align", J::i(M as u64));
    rep.sample(j);
}
