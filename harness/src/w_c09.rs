//! C09: fault enumeration.  For every generated history: a fault-free run counts the n chunk
//! requests it makes; then the history is re-run with "refuse the k-th request" for every k,
//! with "refuse everything above S" for S around every size requested, with "refuse everything
//! from the k-th on" and "refuse all" — each twice: once through the try_ methods, once through
//! the infallible twins (catch_unwind).  Monitors inside the engine check that try_ never panics,
//! that a failure changes nothing, that fitting requests still succeed and that no call retries
//! unboundedly; here the two runs are compared op by op: Err <=> panic, Ok <=> returns.
use crate::arena::*;
use crate::gen::{self, Profile};
use crate::halloc::{self, Env, Refuse};
use crate::json::J;
use crate::ops::Outcome;
use crate::report::{fnv, Report};
use crate::rng::Rng;
use crate::Args;

struct RunOut {
    outcomes: Vec<(usize, Outcome)>,
    descr: Vec<String>,
    cands: u64,
    refused: u64,
    sizes: Vec<usize>,
}

fn run_one<const M: usize>(hseed: u64, nops: usize, fallible: bool, refuse: Refuse, rep: &mut Report, profile: &Profile, ctx: &str) -> RunOut {
    let env = Env { skew: 3, junk: !cfg!(miri), scribble: !cfg!(miri), quarantine: !cfg!(miri), cap: 64 << 20 };
    env.apply(hseed);
    halloc::set_prob_seed(hseed);
    crate::ledger::reset();
    let (c0, r0) = halloc::totals();
    halloc::set_refuse(refuse);
    rep.ctx = format!("{} fallible={} schedule={:?}", ctx, fallible, refuse);
    let mut out = RunOut { outcomes: Vec::new(), descr: Vec::new(), cands: 0, refused: 0, sizes: Vec::new() };
    let cap = if hseed % 4 == 0 { Some(((hseed >> 20) % 3000) as usize) } else { None };
    let mut s = match Sim::<M>::new(hseed, rep, cap, fallible) {
        Some(s) => s,
        None => {
            // the constructor itself was refused: still a valid (short) run
            halloc::set_refuse(Refuse::None);
            let (c1, r1) = halloc::totals();
            out.cands = c1 - c0;
            out.refused = r1 - r0;
            out.outcomes.push((13, if fallible { Outcome::Err } else { Outcome::Panic }));
            out.descr.push("construct".into());
            return out;
        }
    };
    s.force_fallible = Some(fallible);
    for _ in 0..nops {
        let before = s.chunks.len();
        let (k, o) = gen::step(&mut s, rep, profile);
        out.outcomes.push((k, o));
        out.descr.push(s.cur.clone());
        if s.chunks.len() > before {
            for c in &s.chunks[before..] {
                out.sizes.push(c.size);
            }
        }
        if rep.violations.len() >= rep.max_violations {
            break;
        }
    }
    halloc::set_refuse(Refuse::None);
    s.drop_arena(rep);
    let (c1, r1) = halloc::totals();
    out.cands = c1 - c0;
    out.refused = r1 - r0;
    out
}

fn compare(rep: &mut Report, a: &RunOut, b: &RunOut, sched: &str) {
    // a: fallible run, b: infallible run
    let n = a.outcomes.len().min(b.outcomes.len());
    if a.outcomes.len() != b.outcomes.len() {
        rep.violate("C09", "C09/twin/histories-diverged-in-length", format!("{} vs {} ({})", a.outcomes.len(), b.outcomes.len(), sched));
    }
    for i in 0..n {
        let (ka, oa) = a.outcomes[i];
        let (kb, ob) = b.outcomes[i];
        if ka != kb {
            rep.violate("C09", "C09/twin/histories-diverged", format!("op {}: {} vs {} ({})", i, a.descr[i], b.descr[i], sched));
            return;
        }
        // Allocator-trait ops (6,7,8) and fixed-fallible steering ops (14) have no infallible twin
        let same_api = matches!(ka, 6 | 7 | 8 | 14 | 5);
        let good = match (oa, ob) {
            (Outcome::Ok, Outcome::Ok) => true,
            (Outcome::Err, Outcome::Panic) => !same_api,
            (Outcome::Err, Outcome::Err) => same_api || ka == 4 || ka == 17,
            // (huge requests through alloc_slice_try_fill_{with,iter}: the same infallible method on both sides)
            (Outcome::Panic, Outcome::Panic) => ka == 5 || (ka == 17 && a.descr[i].contains("slice_try_fill") && a.descr[i] == b.descr[i]),
            _ => false,
        };
        if !good {
            let sig = match (oa, ob) {
                (Outcome::Err, Outcome::Ok) => "C09/twin/infallible-returned-where-fallible-failed",
                (Outcome::Ok, Outcome::Panic) => "C09/twin/infallible-panicked-where-fallible-succeeded",
                (Outcome::Panic, _) => "C09/twin/fallible-panicked",
                _ => "C09/twin/outcome-mismatch",
            };
            rep.violate("C09", format!("{}/{}", sig, gen::OP_NAMES[ka]), format!("op {}: try: {} -> {:?}; infallible: {} -> {:?} ({})", i, a.descr[i], oa, b.descr[i], ob, sched));
            return;
        }
        rep.bump("c09.twin_ops_compared");
    }
}

pub fn run(args: &Args, rep: &mut Report) {
    crate::dispatch_ma!(args.ma, run_m, args, rep);
    if args.ma == 1 {
        vec_try_reserve_under_refusal(args, rep);
    }
}

/// `Vec::try_reserve{,_exact}` against a refusing allocator or a reached limit: inside the spare
/// capacity it is Ok without any allocator request and without moving; beyond it it is Ok (and the
/// promise holds) or Err with the vector untouched, never a panic; once the fault is lifted it succeeds.
fn vec_try_reserve_under_refusal(args: &Args, rep: &mut Report) {
    use bumpalo::collections::Vec as BVec;
    use bumpalo::Bump;
    let mut rng = Rng::new(Rng::mix(args.seed ^ 0xC09C, args.shard));
    let cases = if cfg!(miri) { 12 } else { 400 };
    for case in 0..cases {
        halloc::Env::PLAIN.apply(1);
        let mut arena = if rng.chance(1, 2) { Bump::new() } else { Bump::with_capacity(rng.range(1, 600) as usize) };
        let cap = rng.range(1, 40) as usize;
        let len = if rng.chance(1, 4) { cap } else { rng.below(cap + 1) };
        let exact = rng.chance(1, 2);
        let by_limit = rng.chance(1, 3);
        rep.ctx = format!("C09 vec try_reserve case {} cap {} len {} exact {} by_limit {} (seed {} shard {})", case, cap, len, exact, by_limit, args.seed, args.shard);
        let neighbour = rng.chance(1, 2);
        let fill_chunk = rng.chance(1, 3);
        if by_limit {
            arena.set_allocation_limit(Some(arena.allocated_bytes().max(1)));
        }
        {
            let a = &arena;
            let mut v: BVec<u32> = BVec::new_in(a);
            // building may itself need memory: no fault yet
            a.set_allocation_limit(None);
            // sometimes the chunk is filled first so that, with the vector as the newest block, only a
            // little room is left behind it (less than doubling needs, enough for small extensions)
            let tight = rng.chance(1, 2);
            let mut guard: Option<*const [u8]> = None;
            if tight {
                let _ = a.alloc(0u32); // make sure there is a chunk
                let want_room = cap * 4 + rng.below(cap * 4 + 9);
                let room = a.chunk_capacity();
                if room > want_room && room < (1 << 16) {
                    guard = Some(a.alloc_slice_fill_copy(room - want_room, 0x11u8) as *const [u8]);
                }
            }
            v.reserve_exact(cap);
            for i in 0..len {
                v.push(i as u32 * 7 + 1);
            }
            if neighbour {
                a.alloc(0x55u8);
            }
            if fill_chunk {
                let room = a.chunk_capacity();
                if room > 0 && room < (1 << 16) {
                    a.alloc_slice_fill_copy(room, 0x66u8);
                }
            }
            let spare = v.capacity() - v.len();
            let room = a.chunk_capacity();
            let k = match rng.below(6) {
                0 => spare,
                1 => rng.below(spare + 1),
                2 => spare + 1,
                // exactly (or one element short of / beyond) what the current chunk can still serve
                3 => spare + room / 4,
                4 => (spare + room / 4).saturating_sub(1),
                _ => spare + rng.range(1, 200) as usize,
            };
            let is_last = !neighbour && !(fill_chunk && room > 0 && room < (1 << 16));
            let (p0, c0) = (v.as_ptr() as usize, v.capacity());
            let want: Vec<u32> = v.iter().copied().collect();
            if by_limit {
                a.set_allocation_limit(Some(a.allocated_bytes()));
            } else {
                halloc::set_refuse(Refuse::All);
            }
            halloc::op_begin();
            let r = std::panic::catch_unwind(std::panic::AssertUnwindSafe(|| if exact { v.try_reserve_exact(k).is_ok() } else { v.try_reserve(k).is_ok() }));
            let evs = halloc::op_end();
            halloc::set_refuse(Refuse::None);
            let asked = evs.iter().filter(|e| e.cand && e.kind == halloc::EV_ALLOC).count();
            let name = if exact { "try_reserve_exact" } else { "try_reserve" };
            rep.evaluations += 1;
            rep.distinct.insert(fnv(fnv(cap as u64, len as u64), fnv(k as u64, (exact as u64) | (by_limit as u64) << 1 | (neighbour as u64) << 2 | (fill_chunk as u64) << 3)));
            rep.bump("c09.vec_try_reserve_cases");
            match r {
                Err(_) => {
                    let msg = last_panic();
                    rep.violate("C09", format!("C09/try-method-panicked/vec::{}/{}", name, normalise_msg(&msg)), format!("{} ({})", msg, rep.ctx));
                }
                Ok(ok) => {
                    if k <= spare {
                        rep.bump("c09.vec_try_reserve_within_capacity");
                        if !ok {
                            rep.violate("C09", format!("C09/collections/vec::{}/request-inside-spare-capacity-failed", name), format!("spare {} additional {} ({})", spare, k, rep.ctx));
                        }
                        if asked != 0 || v.as_ptr() as usize != p0 || v.capacity() != c0 {
                            rep.violate("C09", format!("C09/collections/vec::{}/request-inside-spare-capacity-was-not-a-no-op", name), format!("spare {} additional {}: {} allocator request(s), buffer {:#x} -> {:#x}, capacity {} -> {} ({})", spare, k, asked, p0, v.as_ptr() as usize, c0, v.capacity(), rep.ctx));
                        }
                    } else if !ok && is_last && {
                        let new_cap = if exact { v.len() + k } else { (v.len() + k).max(c0 * 2) };
                        (new_cap - c0) * 4 <= a.chunk_capacity()
                    } {
                        // the vector's buffer is the newest block and the extension fits in the room left in its chunk
                        rep.violate("C09", format!("C09/collections/vec::{}/extension-that-fits-the-current-chunk-failed", name), format!("capacity {} len {} additional {} with {} bytes left in the chunk ({})", c0, v.len(), k, a.chunk_capacity(), rep.ctx));
                        rep.violate("C07", format!("C07/fitting-request-failed/vec::{}/extension-of-the-newest-block", name), format!("capacity {} len {} additional {} with {} bytes left in the chunk ({})", c0, v.len(), k, a.chunk_capacity(), rep.ctx));
                    } else if ok {
                        // the capacity now claimed is really reserved: filling it moves nothing and touches no neighbour
                        let (p1, c1) = (v.as_ptr() as usize, v.capacity());
                        let mut i = 0u32;
                        while v.len() < c1 && i < 4096 {
                            v.push(0xF111_0000 + i);
                            i += 1;
                        }
                        if v.as_ptr() as usize != p1 || v.capacity() != c1 {
                            rep.violate("C19", format!("C19/vec::{}/filling-the-claimed-capacity-moved-the-buffer", name), format!("capacity {} ({})", c1, rep.ctx));
                        }
                        if let Some(g) = guard {
                            if unsafe { (&*g).iter().any(|x| *x != 0x11) } {
                                rep.violate("C19", format!("C19/vec::{}/capacity-claims-memory-that-was-not-reserved", name), format!("filling the {} claimed slots overwrote the block allocated just before the vector ({})", c1, rep.ctx));
                            }
                        }
                        rep.bump("c19.vec_capacity_claims_filled_under_faults");
                        v.truncate(want.len());
                        if v.capacity() < v.len() + k {
                            rep.violate("C09", format!("C09/collections/vec::{}/ok-without-the-capacity", name), format!("len {} additional {} capacity {}", v.len(), k, v.capacity()));
                        }
                    } else {
                        rep.bump("c09.vec_try_reserve_refused");
                        if v.as_ptr() as usize != p0 || v.capacity() != c0 {
                            rep.violate("C09", format!("C09/collections/vec::{}/failure-changed-the-vector", name), format!("buffer {:#x} -> {:#x}, capacity {} -> {}", p0, v.as_ptr() as usize, c0, v.capacity()));
                        }
                    }
                    if v[..] != want[..] {
                        rep.violate("C09", format!("C09/collections/vec::{}/contents-changed", name), String::new());
                    }
                    // fault lifted: the same request succeeds
                    a.set_allocation_limit(None);
                    if v.try_reserve(k).is_err() || v.capacity() < v.len() + k {
                        rep.violate("C09", format!("C09/collections/vec::{}/later-request-that-fits-failed", name), format!("additional {}", k));
                    }
                    if v[..] != want[..] {
                        rep.violate("C09", format!("C09/collections/vec::{}/contents-changed", name), "after the retry".to_string());
                    }
                }
            }
        }
        arena.reset();
        if rep.violations.len() >= rep.max_violations {
            return;
        }
    }
}

fn run_m<const M: usize>(args: &Args, rep: &mut Report) {
    let profile = Profile::faults();
    let mut top = Rng::new(Rng::mix(args.seed ^ 0xC09, args.shard ^ ((M as u64) << 40)));
    let max_k = args.get_usize("max_k", 40);
    for it in 0..args.iters {
        let hseed = top.next();
        let ctx = format!("C09 history {} (seed {} shard {} M {})", it, args.seed, args.shard, M);
        // fault-free reference, both flavours
        let f0 = run_one::<M>(hseed, args.ops, true, Refuse::None, rep, &profile, &ctx);
        let i0 = run_one::<M>(hseed, args.ops, false, Refuse::None, rep, &profile, &ctx);
        compare(rep, &f0, &i0, "no-faults");
        rep.evaluations += 1;
        let n = f0.cands;
        rep.add("c09.fault_free_chunk_requests", n);
        let mut scheds: Vec<Refuse> = Vec::new();
        for k in 1..=n.min(max_k as u64) {
            scheds.push(Refuse::Kth(k));
        }
        for k in [1u64, 2, 3, n / 2 + 1] {
            if k <= n {
                scheds.push(Refuse::FromKth(k));
            }
        }
        let mut sizes = f0.sizes.clone();
        sizes.sort();
        sizes.dedup();
        for s in sizes.iter().take(12) {
            scheds.push(Refuse::Above(*s));
            scheds.push(Refuse::Above(*s - 16));
        }
        scheds.push(Refuse::All);
        scheds.push(Refuse::Prob(90));
        let mut hsig = fnv(hseed, n);
        for sc in scheds {
            let a = run_one::<M>(hseed, args.ops, true, sc, rep, &profile, &ctx);
            let b = run_one::<M>(hseed, args.ops, false, sc, rep, &profile, &ctx);
            if !matches!(sc, Refuse::Prob(_)) {
                // probabilistic schedules draw per request; the two flavours ask identically only
                // while their histories agree, which is what is being checked, so compare anyway
            }
            compare(rep, &a, &b, &format!("{:?}", sc));
            rep.evaluations += 1;
            rep.bump("c09.fault_schedules_run");
            rep.add("c09.refusals_injected", a.refused + b.refused);
            if a.refused > 0 {
                rep.bump("c09.schedules_that_fired");
                rep.distinct.insert(fnv(hsig, a.refused ^ (a.outcomes.iter().filter(|o| o.1 != Outcome::Ok).count() as u64) << 20));
            }
            hsig = fnv(hsig, a.refused);
            if rep.violations.len() >= rep.max_violations {
                return;
            }
        }
        if it == 0 {
            let mut j = J::obj();
            j.set("history_seed", J::i(hseed));
            j.set("min_align", J::i(M as u64));
            j.set("fault_free_chunk_requests", J::i(n));
            j.set("first_ops", J::Arr(f0.descr.iter().take(8).map(|d| J::s(d.clone())).collect()));
            j.set("schedules", J::s("Kth(1..=n), FromKth(1,2,3,n/2+1), Above(size), Above(size-16) for each chunk size seen, All, Prob(90/256); each run with try_ methods and with infallible twins"));
            rep.sample(j);
        }
    }
}
