//! C19: impossible sizes are refused, never wrapped.  A finite boundary grid is enumerated per
//! size-taking entry point (Bump, Vec, String), element size and MIN_ALIGN, in debug and release,
//! under an allocator capped at 64 MiB so that nothing huge is ever really reserved: a fallible
//! method must answer Err, an infallible one must panic, and an Ok is only acceptable when the
//! claimed extent (len x size, capacity x size) is really held / promised capacity is really there.
use crate::arena::*;
use crate::halloc::{self, Env};
use crate::json::J;
use crate::ops::*;
use crate::report::{fnv, Report};
use crate::Args;
use bumpalo::collections::{String as BString, Vec as BVec};
use bumpalo::Bump;
use std::panic::{catch_unwind, AssertUnwindSafe};

const CAP: usize = 64 << 20;

pub fn boundary_counts(esz: usize, align: usize) -> Vec<usize> {
    let mut v: Vec<usize> = Vec::new();
    let e = esz.max(1);
    let im = isize::MAX as usize;
    let mut push3 = |x: usize| {
        v.push(x.wrapping_sub(1));
        v.push(x);
        v.push(x.wrapping_add(1));
    };
    let _ = align;
    push3(usize::MAX);
    push3(usize::MAX / e);
    push3(im / e);
    push3((im & !(align - 1)) / e);
    push3((im - (align - 1)) / e);
    push3(1usize << 32);
    push3((1usize << 32) / e);
    push3(usize::MAX / 2);
    push3((usize::MAX / 2) / e);
    push3(usize::MAX - 4096);
    push3((CAP / e) + 1);
    v.push((1usize << 63) / e);
    v.push((1usize << 63) / e + 1);
    v.push((usize::MAX / e).wrapping_add(2));
    v.push(usize::MAX / e / 2 + 1);
    v.sort();
    v.dedup();
    v
}

pub fn run(args: &Args, rep: &mut Report) {
    crate::dispatch_ma!(args.ma, run_bump, args, rep);
    if args.ma == 1 {
        run_collections(args, rep);
    }
}

fn run_bump<const M: usize>(args: &Args, rep: &mut Report) {
    let esz = [8usize, 8, 1, 3, 4, 1, 1, 8, 8, 8];
    for which in 0u8..10 {
        let counts = boundary_counts(esz[which as usize], if which == 0 { 8 } else { esz[which as usize].min(8) });
        for &n in &counts {
            for fallible in [false, true] {
                for state in 0..3 {
                    let hseed = (n as u64) ^ ((which as u64) << 56) ^ (state as u64) << 50;
                    Env { skew: (state % 3) as u8, junk: !args.instrumented, scribble: !args.instrumented, quarantine: false, cap: CAP }.apply(hseed);
                    rep.ctx = format!("C19 bump case which={} n={:#x} fallible={} state={} M={}", which, n, fallible, state, M);
                    let cap0 = if state == 1 { Some(1000) } else { None };
                    let mut s = match Sim::<M>::new(hseed, rep, cap0, false) {
                        Some(s) => s,
                        None => continue,
                    };
                    if state == 2 {
                        s.op_alloc_layout(rep, 100, 4, false);
                        s.op_set_limit(rep, Some(1 << 20));
                    }
                    if which >= 8 && fallible {
                        // alloc_slice_try_fill_{with,iter} have no try_ twin
                        continue;
                    }
                    let out = s.op_huge(rep, which, n, fallible);
                    rep.evaluations += 1;
                    rep.distinct.insert(fnv(fnv(n as u64, which as u64), fnv(M as u64, state as u64 * 2 + fallible as u64)));
                    rep.bump(match out {
                        Outcome::Ok => "c19.grid_ok",
                        Outcome::Err => "c19.grid_err",
                        Outcome::Panic => "c19.grid_panic",
                    });
                    // the arena must still be usable
                    if s.alive {
                        s.op_alloc_layout(rep, 16, 8, true);
                    }
                    s.drop_arena(rep);
                    if rep.violations.len() >= rep.max_violations {
                        return;
                    }
                }
            }
        }
    }
    let mut j = J::obj();
    j.set("bump_grid", J::s("entry points {alloc_layout, slice_fill_with<u64>, slice_fill_copy<u8>, slice_fill_default<[u8;3]>, slice_fill_clone<u32>, slice_copy<()>, with_capacity, slice_fill_iter<u64>, slice_try_fill_with<u64>, slice_try_fill_iter<u64>} x try_/infallible x arena state {chunkless, with chunk, with chunk+limit} x boundary counts (usize::MAX, usize::MAX/size, isize::MAX/size, isize::MAX rounded by align, 2^32, 2^63, cap) +-1"));
    j.set("min_align", J::i(M as u64));
    rep.sample(j);
}

#[derive(Debug, PartialEq, Clone, Copy)]
enum R {
    Ok,
    Err,
    Panic,
}

fn call<F: FnOnce() -> Option<bool>>(f: F) -> R {
    // inside an allocator window so that the 64 MiB cap applies to the chunk requests
    halloc::op_begin();
    let r = catch_unwind(AssertUnwindSafe(f));
    let _ = halloc::op_end();
    match r {
        Ok(Some(true)) => R::Ok,
        Ok(_) => R::Err,
        Err(_) => R::Panic,
    }
}

fn run_collections(args: &Args, rep: &mut Report) {
    Env { skew: 0, junk: false, scribble: false, quarantine: false, cap: CAP }.apply(1);
    let _ = args;
    macro_rules! vec_grid {
        ($T:ty, $v:expr, $name:expr) => {{
            let esz = std::mem::size_of::<$T>();
            let counts = boundary_counts(esz, std::mem::align_of::<$T>());
            for &n in &counts {
                for len0 in [0usize, 1, 5] {
                    // also counts relative to the current length
                    for &add in &[n, n.wrapping_sub(len0), usize::MAX - len0, (usize::MAX - len0).wrapping_add(1), usize::MAX - len0 - 1] {
                        for which in 0..7 {
                            rep.ctx = format!("C19 vec<{}> which={} len0={} n={:#x}", $name, which, len0, add);
                            let b = Bump::new();
                            let mut v: BVec<$T> = BVec::new_in(&b);
                            for _ in 0..len0 {
                                v.push($v);
                            }
                            let true_bytes = if which == 5 { add as u128 * esz as u128 } else { (add as u128 + len0 as u128) * esz as u128 };
                            let impossible = esz > 0 && (true_bytes > CAP as u128);
                            let cap_before = v.capacity();
                            let fallible = which == 2 || which == 3;
                            let r = match which {
                                0 => call(|| {
                                    v.reserve(add);
                                    Some(true)
                                }),
                                1 => call(|| {
                                    v.reserve_exact(add);
                                    Some(true)
                                }),
                                2 => call(|| Some(v.try_reserve(add).is_ok())),
                                3 => call(|| Some(v.try_reserve_exact(add).is_ok())),
                                4 => {
                                    if len0 != 0 {
                                        continue;
                                    }
                                    call(|| {
                                        let w: BVec<$T> = BVec::with_capacity_in(add, &b);
                                        Some(w.capacity() >= add)
                                    })
                                }
                                5 => {
                                    // resize to a huge length must fail before writing anything
                                    if esz == 0 {
                                        continue;
                                    }
                                    call(|| {
                                        v.resize(add, $v);
                                        Some(true)
                                    })
                                }
                                _ => {
                                    // extend_from_slices_copy: the sum of lengths is what matters; only ZST
                                    // slices can be huge, so exercise the summation with them
                                    if esz != 0 {
                                        continue;
                                    }
                                    call(|| {
                                        let big: &[$T] = unsafe { std::slice::from_raw_parts(std::ptr::NonNull::<$T>::dangling().as_ptr(), add) };
                                        v.extend_from_slices_copy(&[big, big]);
                                        Some(true)
                                    })
                                }
                            };
                            rep.evaluations += 1;
                            rep.distinct.insert(fnv(fnv(add as u64, which as u64 + 50), fnv(esz as u64, len0 as u64)));
                            rep.bump(match r {
                                R::Ok => "c19.vec_ok",
                                R::Err => "c19.vec_err",
                                R::Panic => "c19.vec_panic",
                            });
                            let opname = ["reserve", "reserve_exact", "try_reserve", "try_reserve_exact", "with_capacity_in", "resize", "extend_from_slices_copy"][which];
                            let overflow_len = which != 5 && len0.checked_add(add).is_none();
                            match r {
                                R::Ok => {
                                    if which == 6 {
                                        // ZST: len must not wrap
                                        let want = (len0 as u128) + 2 * (add as u128);
                                        if want > usize::MAX as u128 || v.len() as u128 != want {
                                            // zero-sized elements claim no memory, so this is outside C19; counted only
                                            rep.bump("c19.zst_length_wrapped_not_a_memory_claim");
                                        }
                                    } else if impossible || overflow_len {
                                        rep.violate(
                                            "C19",
                                            format!("C19/vec<{}>/{}/impossible-size-accepted{}", $name, opname, if len0 > 0 { "/non-empty" } else { "" }),
                                            format!("len {} additional {:#x} (true size {:#x} bytes) returned success; capacity {} -> {}", len0, add, true_bytes, cap_before, v.capacity()),
                                        );
                                    } else if which != 4 && which != 5 && v.capacity() < len0 + add {
                                        rep.violate("C19", format!("C19/vec<{}>/{}/success-without-capacity", $name, opname), format!("len {} additional {} capacity {}", len0, add, v.capacity()));
                                    }
                                }
                                R::Err => {
                                    if !fallible {
                                        rep.violate("C19", format!("C19/vec<{}>/{}/harness-logic", $name, opname), String::new());
                                    }
                                    if v.capacity() != cap_before || v.len() != len0 {
                                        rep.violate("C19", format!("C19/vec<{}>/{}/failure-changed-vector", $name, opname), String::new());
                                    }
                                }
                                R::Panic => {
                                    let msg = last_panic();
                                    if fallible {
                                        rep.violate("C09", format!("C09/try-method-panicked/vec<{}>::{}/{}", $name, opname, normalise_msg(&msg)), format!("additional {:#x}: {}", add, msg));
                                        rep.violate("C19", format!("C19/fallible-method-panicked-instead-of-returning-an-error/vec<{}>::{}", $name, opname), format!("len {} additional {:#x}: {}", len0, add, msg));
                                    } else if classify_panic(&msg) == PanicClass::Other {
                                        // any panic is an acceptable refusal for an infallible method
                                        rep.bump("c19.vec_panic_other_message");
                                    }
                                    if which != 5 && (v.len() != len0) {
                                        rep.violate("C19", format!("C19/vec<{}>/{}/panic-changed-length", $name, opname), String::new());
                                    }
                                }
                            }
                            // the vector is still consistent
                            if v.capacity() < v.len() {
                                rep.violate("C19", format!("C19/vec<{}>/{}/capacity-below-len-afterwards", $name, opname), String::new());
                            }
                            if rep.violations.len() >= rep.max_violations {
                                return;
                            }
                        }
                    }
                }
            }
        }};
    }
    vec_grid!((), (), "()");
    vec_grid!(u8, 7u8, "u8");
    vec_grid!([u8; 3], [1u8; 3], "[u8;3]");
    vec_grid!(u64, 9u64, "u64");
    vec_grid!([u8; 24], [2u8; 24], "[u8;24]");
    vec_grid!([u8; 4096], [3u8; 4096], "[u8;4096]");

    // String
    let counts = boundary_counts(1, 1);
    for &n in &counts {
        for len0 in [0usize, 1, 7] {
            for &add in &[n, usize::MAX - len0, (usize::MAX - len0).wrapping_add(1), usize::MAX - len0 - 1] {
                for which in 0..3 {
                    rep.ctx = format!("C19 string which={} len0={} n={:#x}", which, len0, add);
                    let b = Bump::new();
                    let mut s = BString::new_in(&b);
                    for _ in 0..len0 {
                        s.push('a');
                    }
                    let impossible = (add as u128 + len0 as u128) > CAP as u128;
                    let cap_before = s.capacity();
                    let r = match which {
                        0 => call(|| {
                            s.reserve(add);
                            Some(true)
                        }),
                        1 => call(|| {
                            s.reserve_exact(add);
                            Some(true)
                        }),
                        _ => {
                            if len0 != 0 {
                                continue;
                            }
                            call(|| {
                                let w = BString::with_capacity_in(add, &b);
                                Some(w.capacity() >= add)
                            })
                        }
                    };
                    rep.evaluations += 1;
                    rep.distinct.insert(fnv(fnv(add as u64, which as u64 + 90), len0 as u64));
                    let opname = ["reserve", "reserve_exact", "with_capacity_in"][which];
                    match r {
                        R::Ok => {
                            rep.bump("c19.string_ok");
                            if impossible {
                                rep.violate("C19", format!("C19/string/{}/impossible-size-accepted{}", opname, if len0 > 0 { "/non-empty" } else { "" }), format!("len {} additional {:#x} capacity {} -> {}", len0, add, cap_before, s.capacity()));
                            }
                        }
                        R::Err => rep.bump("c19.string_err"),
                        R::Panic => {
                            rep.bump("c19.string_panic");
                            let msg = last_panic();
                            if classify_panic(&msg) == PanicClass::Other {
                                rep.bump("c19.string_panic_other_message");
                            }
                        }
                    }
                    if s.len() != len0 || s.capacity() < s.len() {
                        rep.violate("C19", format!("C19/string/{}/string-changed", opname), String::new());
                    }
                }
            }
        }
    }
    let mut j = J::obj();
    j.set("collections_grid", J::s("Vec<T> for T in {(),u8,[u8;3],u64,[u8;24],[u8;4096]} x {reserve,reserve_exact,try_reserve,try_reserve_exact,with_capacity_in,resize,extend_from_slices_copy} x len {0,1,5} x boundary counts (also relative to len: usize::MAX-len+{-1,0,1}); String x {reserve,reserve_exact,with_capacity_in} x len {0,1,7}"));
    rep.sample(j);
    halloc::set_refuse(halloc::Refuse::None);
}
