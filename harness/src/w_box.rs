//! Workload "boxdiff" (C17, and the Box clauses of C15): bumpalo::boxed::Box against
//! std::boxed::Box holding the same value, a drop ledger for ownership transfers, and arena
//! accounting around drop ("never releases arena memory").
use crate::halloc::{self, Env, EV_DEALLOC};
use crate::json::J;
use crate::ledger::{self, Tracked, TrackedZst};
use crate::report::{fnv, Report};
use crate::rng::Rng;
use crate::Args;
use bumpalo::boxed::Box as BBox;
use bumpalo::collections::Vec as BVec;
use bumpalo::Bump;
use std::any::Any;
use std::collections::hash_map::DefaultHasher;
use std::future::Future;
use std::hash::{Hash, Hasher};
use std::pin::Pin;
use std::task::{Context, Poll, RawWaker, RawWakerVTable, Waker};

fn h<T: Hash + ?Sized>(x: &T) -> u64 {
    let mut s = DefaultHasher::new();
    x.hash(&mut s);
    s.finish()
}

fn noop_waker() -> Waker {
    fn clone(_: *const ()) -> RawWaker {
        RawWaker::new(std::ptr::null(), &VT)
    }
    fn noop(_: *const ()) {}
    static VT: RawWakerVTable = RawWakerVTable::new(clone, noop, noop, noop);
    unsafe { Waker::from_raw(RawWaker::new(std::ptr::null(), &VT)) }
}

/// ready after `n` polls, yields `val`
struct Countdown {
    n: u32,
    val: u64,
    polls: u32,
}
impl Future for Countdown {
    type Output = (u64, u32);
    fn poll(mut self: Pin<&mut Self>, _cx: &mut Context<'_>) -> Poll<(u64, u32)> {
        self.polls += 1;
        if self.n == 0 {
            Poll::Ready((self.val, self.polls))
        } else {
            self.n -= 1;
            Poll::Pending
        }
    }
}

fn v17(rep: &mut Report, sig: &str, detail: String) {
    rep.violate("C17", format!("C17/{}", sig), detail);
}
/// ownership / destructor-count violations belong to both C15 and C17
fn vdrop(rep: &mut Report, sig: &str, detail: String) {
    rep.violate("C17", format!("C17/{}", sig), detail.clone());
    rep.violate("C15", format!("C15/box/{}", sig), detail);
}

fn drops_since(mark: usize) -> Vec<u32> {
    ledger::drops_since(mark)
}

struct ArenaSnap {
    ab: usize,
    abim: usize,
    cap: usize,
}
fn snap(b: &Bump) -> ArenaSnap {
    ArenaSnap { ab: b.allocated_bytes(), abim: b.allocated_bytes_including_metadata(), cap: b.chunk_capacity() }
}

/// drop a box inside an allocator window: no dealloc event, accounting and capacity unchanged
fn drop_box_monitored<T: ?Sized>(rep: &mut Report, b: &Bump, bx: BBox<'_, T>, what: &str) {
    let before = snap(b);
    halloc::op_begin();
    drop(bx);
    let ev = halloc::op_end();
    let after = snap(b);
    if ev.iter().any(|e| e.kind == EV_DEALLOC && e.cand) {
        v17(rep, &format!("{}/drop-released-memory-to-global-allocator", what), String::new());
    }
    if before.ab != after.ab || before.abim != after.abim || before.cap != after.cap {
        v17(
            rep,
            &format!("{}/drop-changed-arena-accounting-or-capacity", what),
            format!("allocated_bytes {} -> {}, capacity {} -> {}", before.ab, after.ab, before.cap, after.cap),
        );
    }
    rep.bump("c17.monitored_drops");
}

fn boxed_slice_in_chunks(rng: &mut Rng, rep: &mut Report) {
    let mut arena = match rng.below(3) {
        0 => Bump::new(),
        1 => Bump::with_capacity(rng.range(1, 400) as usize),
        _ => {
            let a = Bump::new();
            a.alloc_slice_fill_copy(rng.range(1, 300) as usize, 1u8);
            a
        }
    };
    let n = rng.range(1, 40) as usize;
    let cap = n + [0usize, 1, n, 3 * n, 64][rng.below(5)];
    let older_neighbour = rng.chance(1, 2);
    let (raw, want): (*mut [u64], Vec<u64>) = {
        let a = &arena;
        let mut v: BVec<u64> = BVec::with_capacity_in(cap, a);
        if older_neighbour {
            a.alloc(0xAAu8);
        }
        for i in 0..n {
            v.push(i as u64 * 3 + 1);
        }
        if rng.chance(1, 3) {
            v.truncate(n / 2 + 1);
        }
        let want: Vec<u64> = v.iter().copied().collect();
        let bx: BBox<[u64]> = match rng.below(3) {
            0 => v.into_boxed_slice(),
            1 => v.into(),
            _ => BBox::from_iter_in(v.into_iter(), a),
        };
        (BBox::into_raw(bx), want)
    };
    let (p, bytes) = (raw as *mut u64 as usize, want.len() * 8);
    for round in 0..2 {
        let mut inside = 0;
        let mut chunks = 0;
        for (cp, cl) in unsafe { arena.iter_allocated_chunks_raw() } {
            chunks += 1;
            let (lo, hi) = (cp as usize, cp as usize + cl);
            if lo <= p && p + bytes <= hi {
                inside += 1;
            }
        }
        rep.bump("c10.live_boxed_slices_located");
        if inside != 1 {
            rep.violate("C10", "C10/iter/live-boxed-slice-not-inside-exactly-one-chunk-slice", format!("block [{:#x}, +{}) found in {} of {} chunk slices (round {})", p, bytes, inside, chunks, round));
            rep.violate("C01", "C01/collections/live-boxed-slice-outside-the-allocated-part-of-the-arena", format!("block [{:#x}, +{}) found in {} of {} chunk slices (round {})", p, bytes, inside, chunks, round));
        }
        if unsafe { &*raw } != &want[..] {
            rep.violate("C02", "C02/into_boxed_slice/contents-of-the-live-box-changed-by-a-later-operation", format!("round {}", round));
        }
        // later allocations in the same arena
        let k = rng.range(1, 200) as usize;
        let s = arena.alloc_slice_fill_copy(k, 0xEEu8);
        let (sp, sl) = (s.as_ptr() as usize, s.len());
        if sp < p + bytes && p < sp + sl {
            rep.violate("C01", "C01/collections/later-allocation-overlaps-live-boxed-slice", format!("[{:#x}, +{}) vs [{:#x}, +{})", sp, sl, p, bytes));
        }
    }
    drop(unsafe { BBox::from_raw(raw) });
}

pub fn run(args: &Args, rep: &mut Report) {
    let mut top = Rng::new(Rng::mix(args.seed ^ 0xC17, args.shard));
    for it in 0..args.iters {
        let pseed = top.next();
        let mut rng = Rng::new(pseed);
        Env::from_seed(pseed >> 8, args.instrumented).apply(pseed);
        halloc::set_always(true);
        ledger::reset();
        ledger::zst_reset();
        ledger::set_side(1);
        let bump = Bump::new();
        let b = &bump;
        let mut sig = 0u64;
        // canaries
        let canary = b.alloc_slice_fill_copy(32, 0x77u8) as *const [u8];
        for opi in 0..args.ops {
            let sc = rng.below(22);
            rep.ctx = format!("boxdiff program {} op {} scenario {} (seed {} shard {})", it, opi, sc, args.seed, args.shard);
            sig = fnv(sig, sc as u64);
            rep.bump(&format!("box.sc{}", sc));
            match sc {
                0 => {
                    // sized value: deref, eq, ord, hash, fmt
                    let x = rng.next();
                    let y = rng.next() % 3 + x - 1;
                    let bx = BBox::new_in(x, b);
                    let by = BBox::new_in(y, b);
                    let sx = std::boxed::Box::new(x);
                    let sy = std::boxed::Box::new(y);
                    if *bx != x || *by != y {
                        v17(rep, "sized/deref-differs", String::new());
                    }
                    if (bx == by) != (sx == sy) || (bx < by) != (sx < sy) || (bx >= by) != (sx >= sy) || bx.cmp(&by) != sx.cmp(&sy) || bx.partial_cmp(&by) != sx.partial_cmp(&sy) {
                        v17(rep, "sized/comparison-differs-from-std", format!("{} vs {}", x, y));
                    }
                    if h(&bx) != h(&sx) || h(&*bx) != h(&x) {
                        v17(rep, "sized/hash-differs-from-std", String::new());
                    }
                    if format!("{}", bx) != format!("{}", sx) || format!("{:?}", bx) != format!("{:?}", sx) || format!("{:p}", bx).is_empty() {
                        v17(rep, "sized/fmt-differs-from-std", String::new());
                    }
                    // the caller's format spec must reach the boxed value
                    #[derive(Debug, Clone, PartialEq)]
                    struct Point {
                        x: i32,
                        y: f64,
                        tag: &'static str,
                    }
                    let p = Point { x: (x % 1000) as i32 - 500, y: (y % 977) as f64 / 7.0, tag: "pt" };
                    let bp = BBox::new_in(p.clone(), b);
                    let sp = std::boxed::Box::new(p.clone());
                    let bf = BBox::new_in(p.y, b);
                    let sf = std::boxed::Box::new(p.y);
                    let bn = BBox::new_in(BBox::new_in(p.x, b), b);
                    let sn = std::boxed::Box::new(std::boxed::Box::new(p.x));
                    let fb = [
                        format!("{:#?}", bp),
                        format!("{:>40?}", bp),
                        format!("{:10.2?}|{:+.3}|{:>12.1}|{:e}", bf, bf, bf, *bf),
                        format!("{:#x?}|{:08?}|{:<6}|{:+}|{:#b}", bn, bn, bn, bn, **bn),
                        format!("{:#?}", bn),
                    ];
                    let fs = [
                        format!("{:#?}", sp),
                        format!("{:>40?}", sp),
                        format!("{:10.2?}|{:+.3}|{:>12.1}|{:e}", sf, sf, sf, *sf),
                        format!("{:#x?}|{:08?}|{:<6}|{:+}|{:#b}", sn, sn, sn, sn, **sn),
                        format!("{:#?}", sn),
                    ];
                    if fb != fs {
                        let i = (0..fb.len()).find(|&i| fb[i] != fs[i]).unwrap_or(0);
                        v17(rep, "sized/fmt-with-flags-differs-from-std", format!("{:?} vs {:?}", fb[i], fs[i]));
                    }
                    // comparisons go to the value even when both operands are the same box / same address
                    let nan = BBox::new_in(f64::NAN, b);
                    let snan = std::boxed::Box::new(f64::NAN);
                    #[allow(clippy::eq_op)]
                    {
                        if (nan == nan) != (snan == snan) || (nan != nan) != (snan != snan) || nan.partial_cmp(&nan) != snan.partial_cmp(&snan) {
                            v17(rep, "sized/comparison-of-a-box-with-itself-differs-from-std", "NaN".to_string());
                        }
                    }
                    let ns: BBox<[f32]> = BBox::from_iter_in([1.0f32, f32::NAN].iter().copied(), b);
                    #[allow(clippy::eq_op)]
                    if ns == ns {
                        v17(rep, "slice/comparison-of-a-box-with-itself-differs-from-std", "NaN inside".to_string());
                    }
                    struct NeverEq;
                    impl PartialEq for NeverEq {
                        fn eq(&self, _o: &NeverEq) -> bool {
                            false
                        }
                    }
                    let z1 = BBox::new_in(NeverEq, b);
                    let z2 = BBox::new_in(NeverEq, b);
                    if z1 == z2 || !(z1 != z2) {
                        v17(rep, "zst/comparison-does-not-consult-the-value", String::new());
                    }
                    let r: &u64 = bx.as_ref();
                    let r2: &u64 = std::borrow::Borrow::borrow(&bx);
                    if *r != x || *r2 != x {
                        v17(rep, "sized/as_ref-borrow-differs", String::new());
                    }
                    let mut bm = BBox::new_in(x, b);
                    *bm = !x;
                    *bm.as_mut() ^= 1;
                    if *bm != (!x ^ 1) {
                        v17(rep, "sized/deref_mut-differs", String::new());
                    }
                    drop_box_monitored(rep, b, bx, "sized");
                }
                1 => {
                    // tracked value: dropped exactly once on drop
                    let t = Tracked::new(rng.below(100) as u32);
                    let id = t.id;
                    let bx = BBox::new_in(t, b);
                    let mark = ledger::log_len();
                    if !ledger::is_live(id) || !bx.check() {
                        vdrop(rep, "new_in/value-dropped-or-corrupt", String::new());
                    }
                    drop_box_monitored(rep, b, bx, "tracked");
                    let d = drops_since(mark);
                    if d != vec![id] {
                        vdrop(rep, "drop/destructor-count-not-one", format!("drops {:?} expected [{}]", d, id));
                    }
                    rep.bump("c15.box_drop_checks");
                }
                2 => {
                    // into_inner: moved out, destructor runs when the caller drops the value
                    let t = Tracked::new(1);
                    let id = t.id;
                    let bx = BBox::new_in(t, b);
                    let mark = ledger::log_len();
                    let inner = BBox::into_inner(bx);
                    if !drops_since(mark).is_empty() {
                        vdrop(rep, "into_inner/destructor-ran", String::new());
                    }
                    if inner.id != id || !inner.check() {
                        v17(rep, "into_inner/value-changed", String::new());
                    }
                    drop(inner);
                    if drops_since(mark) != vec![id] {
                        vdrop(rep, "into_inner/not-dropped-exactly-once-by-caller", format!("{:?}", drops_since(mark)));
                    }
                    rep.bump("c15.box_drop_checks");
                }
                3 => {
                    // into_raw / from_raw round trip, leak
                    let t = Tracked::new(2);
                    let id = t.id;
                    let mark = ledger::log_len();
                    let bx = BBox::new_in(t, b);
                    let raw = BBox::into_raw(bx);
                    if !drops_since(mark).is_empty() {
                        vdrop(rep, "into_raw/destructor-ran", String::new());
                    }
                    let bx = unsafe { BBox::from_raw(raw) };
                    if bx.id != id || !bx.check() {
                        v17(rep, "from_raw/value-changed", String::new());
                    }
                    if rng.chance(1, 2) {
                        let r: &mut Tracked = BBox::leak(bx);
                        if r.id != id || !drops_since(mark).is_empty() {
                            vdrop(rep, "leak/destructor-ran-or-value-changed", String::new());
                        }
                        // take it back so that the run stays leak-free for Miri
                        let back = unsafe { BBox::from_raw(r as *mut Tracked) };
                        drop(back);
                    } else {
                        drop(bx);
                    }
                    if drops_since(mark) != vec![id] {
                        vdrop(rep, "raw-round-trip/not-dropped-exactly-once", format!("{:?}", drops_since(mark)));
                    }
                    rep.bump("c15.box_drop_checks");
                }
                4 => {
                    // zero-sized values
                    let bz = BBox::new_in((), b);
                    if *bz != () {
                        v17(rep, "zst/deref", String::new());
                    }
                    drop(bz);
                    let (m0, d0) = ledger::zst_counts();
                    let bt = BBox::new_in(TrackedZst::new(), b);
                    let raw = BBox::into_raw(bt);
                    let bt = unsafe { BBox::from_raw(raw) };
                    drop_box_monitored(rep, b, bt, "zst");
                    let (m1, d1) = ledger::zst_counts();
                    if m1 - m0 != 1 || d1 - d0 != 1 {
                        vdrop(rep, "zst/destructor-count-not-one", format!("minted {} dropped {}", m1 - m0, d1 - d0));
                    }
                    rep.bump("c15.box_drop_checks");
                }
                5 => {
                    // boxed slices: from_iter_in, order, iteration, eq, drop each once
                    let n = rng.below(9);
                    let keys: Vec<u32> = (0..n).map(|_| rng.below(50) as u32).collect();
                    let mark = ledger::log_len();
                    let bx: BBox<[Tracked]> = BBox::from_iter_in(keys.iter().map(|k| Tracked::new(*k)), b);
                    let got: Vec<u32> = bx.iter().map(|t| t.key).collect();
                    if got != keys {
                        v17(rep, "slice/from_iter_in-order-or-content-differs", format!("{:?} vs {:?}", got, keys));
                    }
                    let ids: Vec<u32> = bx.iter().map(|t| t.id).collect();
                    if !drops_since(mark).is_empty() {
                        vdrop(rep, "slice/from_iter_in-dropped-elements", String::new());
                    }
                    drop_box_monitored(rep, b, bx, "slice");
                    let mut d = drops_since(mark);
                    d.sort();
                    let mut want = ids.clone();
                    want.sort();
                    if d != want {
                        vdrop(rep, "slice/drop-did-not-drop-each-element-once", format!("{:?} vs {:?}", d, want));
                    }
                    rep.bump("c15.box_drop_checks");
                }
                6 => {
                    // array <-> slice <-> vec conversions
                    let keys = [rng.below(90) as u32, rng.below(90) as u32, rng.below(90) as u32];
                    let mark = ledger::log_len();
                    let arr: BBox<[Tracked; 3]> = BBox::new_in([Tracked::new(keys[0]), Tracked::new(keys[1]), Tracked::new(keys[2])], b);
                    let ids: Vec<u32> = arr.iter().map(|t| t.id).collect();
                    let sl: BBox<[Tracked]> = arr.into();
                    if sl.iter().map(|t| t.id).collect::<Vec<_>>() != ids {
                        v17(rep, "array-to-slice/order-or-identity-changed", String::new());
                    }
                    // miss: wrong N gives the box back intact
                    let sl = match <BBox<[Tracked; 2]>>::try_from(sl) {
                        Ok(two) => {
                            v17(rep, "slice-to-array/accepted-wrong-length", format!("len 3 became [_; 2]"));
                            // elements beyond N are lost; keep going with what we have
                            drop(two);
                            BBox::from_iter_in(std::iter::empty(), b)
                        }
                        Err(orig) => orig,
                    };
                    if sl.len() == 3 {
                        match <BBox<[Tracked; 3]>>::try_from(sl) {
                            Ok(three) => {
                                if three.iter().map(|t| t.id).collect::<Vec<_>>() != ids {
                                    v17(rep, "slice-to-array/order-or-identity-changed", String::new());
                                }
                                if !drops_since(mark).is_empty() {
                                    vdrop(rep, "conversions/destructor-ran-during-conversion", format!("{:?}", drops_since(mark)));
                                }
                                drop(three);
                            }
                            Err(_) => v17(rep, "slice-to-array/rejected-right-length", String::new()),
                        }
                    } else {
                        drop(sl);
                    }
                    let mut d = drops_since(mark);
                    d.sort();
                    let mut want = ids.clone();
                    want.sort();
                    if d != want {
                        vdrop(rep, "conversions/elements-not-dropped-exactly-once", format!("{:?} vs {:?}", d, want));
                    }
                    rep.bump("c15.box_drop_checks");
                }
                7 => {
                    // Vec -> Box<[T]> (into_boxed_slice and From), then more allocations: contents stay
                    let n = rng.below(7);
                    let keys: Vec<u32> = (0..n).map(|_| rng.below(50) as u32).collect();
                    let mark = ledger::log_len();
                    let mut v: BVec<Tracked> = BVec::with_capacity_in(n + rng.below(4), b);
                    for k in &keys {
                        v.push(Tracked::new(*k));
                    }
                    let ids: Vec<u32> = v.iter().map(|t| t.id).collect();
                    let bx: BBox<[Tracked]> = if rng.chance(1, 2) { v.into_boxed_slice() } else { v.into() };
                    // neighbours allocated after the conversion must not land on the box
                    let filler = b.alloc_slice_fill_copy(48, 0xEEu8) as *const [u8];
                    let _more = b.alloc([0xFFFF_FFFFu32; 8]);
                    if bx.iter().map(|t| t.id).collect::<Vec<_>>() != ids || bx.iter().any(|t| !t.check()) || bx.iter().map(|t| t.key).collect::<Vec<_>>() != keys {
                        v17(rep, "vec-to-boxed-slice/contents-changed-after-later-allocation", String::new());
                    }
                    if unsafe { (&*filler).iter().any(|x| *x != 0xEE) } {
                        v17(rep, "vec-to-boxed-slice/neighbour-changed", String::new());
                    }
                    if !drops_since(mark).is_empty() {
                        vdrop(rep, "vec-to-boxed-slice/destructor-ran-during-conversion", String::new());
                    }
                    drop_box_monitored(rep, b, bx, "vec-to-boxed-slice");
                    let mut d = drops_since(mark);
                    d.sort();
                    let mut want = ids.clone();
                    want.sort();
                    if d != want {
                        vdrop(rep, "vec-to-boxed-slice/elements-not-dropped-exactly-once", format!("{:?} vs {:?}", d, want));
                    }
                    rep.bump("c15.box_drop_checks");
                }
                8 => {
                    // dyn Any downcast hit / miss
                    let k = rng.below(1000) as u32;
                    let mark = ledger::log_len();
                    let t = Tracked::new(k);
                    let id = t.id;
                    let send = rng.chance(1, 2);
                    if send {
                        let bx = BBox::new_in(t, b);
                        let any: BBox<dyn Any + Send> = unsafe { BBox::from_raw(BBox::into_raw(bx) as *mut (dyn Any + Send)) };
                        let any = match any.downcast::<u64>() {
                            Ok(_) => {
                                v17(rep, "downcast/miss-returned-ok", String::new());
                                return;
                            }
                            Err(orig) => orig,
                        };
                        match any.downcast::<Tracked>() {
                            Ok(t) => {
                                if t.id != id || t.key != k || !t.check() {
                                    v17(rep, "downcast/hit-value-changed", String::new());
                                }
                                drop(t);
                            }
                            Err(_) => v17(rep, "downcast/hit-returned-err", String::new()),
                        }
                    } else {
                        let bx = BBox::new_in(t, b);
                        let any: BBox<dyn Any> = unsafe { BBox::from_raw(BBox::into_raw(bx) as *mut dyn Any) };
                        let any = match any.downcast::<String>() {
                            Ok(_) => {
                                v17(rep, "downcast/miss-returned-ok", String::new());
                                return;
                            }
                            Err(orig) => orig,
                        };
                        if !drops_since(mark).is_empty() {
                            vdrop(rep, "downcast/miss-dropped-the-value", String::new());
                        }
                        if rng.chance(1, 2) {
                            drop(any); // dropping the trait object drops the value once
                        } else {
                            match any.downcast::<Tracked>() {
                                Ok(t) => {
                                    if t.id != id {
                                        v17(rep, "downcast/hit-value-changed", String::new());
                                    }
                                }
                                Err(_) => v17(rep, "downcast/hit-returned-err", String::new()),
                            }
                        }
                    }
                    if drops_since(mark) != vec![id] {
                        vdrop(rep, "downcast/not-dropped-exactly-once", format!("{:?}", drops_since(mark)));
                    }
                    rep.bump("c15.box_drop_checks");
                }
                9 => {
                    // iterators through the box
                    let lo = rng.below(20) as u32;
                    let hi = lo + rng.below(12) as u32;
                    let mut bi = BBox::new_in(lo..hi, b);
                    let mut si = std::boxed::Box::new(lo..hi);
                    for _ in 0..rng.below(14) {
                        match rng.below(5) {
                            0 => {
                                if bi.next() != si.next() {
                                    v17(rep, "iterator/next-differs", String::new());
                                }
                            }
                            1 => {
                                if bi.next_back() != si.next_back() {
                                    v17(rep, "iterator/next_back-differs", String::new());
                                }
                            }
                            2 => {
                                if bi.len() != si.len() || bi.size_hint() != si.size_hint() {
                                    v17(rep, "iterator/len-differs", String::new());
                                }
                            }
                            3 => {
                                let n = rng.below(3);
                                if bi.nth(n) != si.nth(n) {
                                    v17(rep, "iterator/nth-differs", String::new());
                                }
                            }
                            _ => {
                                let n = rng.below(3);
                                if bi.nth_back(n) != si.nth_back(n) {
                                    v17(rep, "iterator/nth_back-differs", String::new());
                                }
                            }
                        }
                    }
                    let rest_b: Vec<u32> = bi.collect();
                    let rest_s: Vec<u32> = si.collect();
                    if rest_b != rest_s {
                        v17(rep, "iterator/remaining-items-differ", String::new());
                    }
                    // consuming adaptors on iterators whose size hints are honest but loose
                    let m = rng.range(1, 9) as u32;
                    let mk = || std::iter::once(lo).chain((lo..hi + 6).filter(move |x| x % m != 1)).chain(std::iter::once(hi));
                    let which = rng.below(8);
                    let (rb, rs): (Vec<u32>, Vec<u32>) = {
                        let mut bx = BBox::new_in(mk(), b);
                        let mut sx = std::boxed::Box::new(mk());
                        match which {
                            0 => (bx.last().into_iter().collect(), sx.last().into_iter().collect()),
                            1 => (vec![bx.count() as u32], vec![sx.count() as u32]),
                            2 => (bx.max().into_iter().collect(), sx.max().into_iter().collect()),
                            3 => (vec![bx.fold(0u32, |a, x| a.wrapping_mul(31).wrapping_add(x))], vec![sx.fold(0u32, |a, x| a.wrapping_mul(31).wrapping_add(x))]),
                            4 => (bx.skip(2).step_by(2).collect(), sx.skip(2).step_by(2).collect()),
                            5 => (bx.rev().take(3).collect(), sx.rev().take(3).collect()),
                            6 => {
                                let (mut bx, mut sx) = (bx, sx);
                                let a = (bx.nth(1), bx.size_hint(), bx.by_ref().last());
                                let c = (sx.nth(1), sx.size_hint(), sx.by_ref().last());
                                if a.1 != c.1 {
                                    v17(rep, "iterator/size_hint-differs", format!("{:?} vs {:?}", a.1, c.1));
                                }
                                (a.0.into_iter().chain(a.2).collect(), c.0.into_iter().chain(c.2).collect())
                            }
                            _ => (vec![bx.position(|x| x == hi).map_or(u32::MAX, |p| p as u32)], vec![sx.position(|x| x == hi).map_or(u32::MAX, |p| p as u32)]),
                        }
                    };
                    if rb != rs {
                        v17(rep, "iterator/consuming-adaptor-differs-from-std", format!("adaptor {}: {:?} vs {:?}", which, rb, rs));
                    }
                }
                10 => {
                    // futures
                    let n = rng.below(4) as u32;
                    let val = rng.next();
                    let w = noop_waker();
                    let mut cx = Context::from_waker(&w);
                    let mut bf = BBox::new_in(Countdown { n, val, polls: 0 }, b);
                    let mut sf = std::boxed::Box::new(Countdown { n, val, polls: 0 });
                    for _ in 0..=n {
                        let pb = Pin::new(&mut bf).poll(&mut cx);
                        let ps = Pin::new(&mut sf).poll(&mut cx);
                        if pb != ps {
                            v17(rep, "future/poll-result-differs", format!("{:?} vs {:?}", pb, ps));
                        }
                    }
                    // pin_in
                    let mut pf = BBox::pin_in(Countdown { n: 1, val, polls: 0 }, b);
                    let p1 = pf.as_mut().poll(&mut cx);
                    let p2 = pf.as_mut().poll(&mut cx);
                    if p1 != Poll::Pending || p2 != Poll::Ready((val, 2)) {
                        v17(rep, "pin_in/poll-sequence-wrong", format!("{:?} {:?}", p1, p2));
                    }
                    let mark = ledger::log_len();
                    let pt = BBox::pin_in(Tracked::new(5), b);
                    let id = pt.id;
                    drop(pt);
                    if drops_since(mark) != vec![id] {
                        vdrop(rep, "pin_in/not-dropped-exactly-once", String::new());
                    }
                    let pinned: Pin<BBox<u32>> = BBox::new_in(7u32, b).into();
                    if *pinned != 7 {
                        v17(rep, "pin-from-box/value-changed", String::new());
                    }
                }
                11 => {
                    // str and default
                    let text: String = (0..rng.below(10)).map(|_| ['a', 'é', '€', '😀', 'z'][rng.below(5)]).collect();
                    let s = b.alloc_str(&text);
                    let bs: BBox<str> = unsafe { BBox::from_raw(s as *mut str) };
                    let ss: std::boxed::Box<str> = text.clone().into_boxed_str();
                    if &*bs != &*ss || format!("{}", bs) != format!("{}", ss) || format!("{:?}", bs) != format!("{:?}", ss) || h(&bs) != h(&ss) {
                        v17(rep, "str/differs-from-std", String::new());
                    }
                    drop_box_monitored(rep, b, bs, "str");
                    let e: BBox<str> = Default::default();
                    let es: BBox<[u64]> = Default::default();
                    if !e.is_empty() || !es.is_empty() {
                        v17(rep, "default/not-empty", String::new());
                    }
                }
                12 => {
                    // Hasher through a box
                    let mut bh = BBox::new_in(DefaultHasher::new(), b);
                    let mut sh = DefaultHasher::new();
                    let n = rng.next();
                    bh.write_u64(n);
                    sh.write_u64(n);
                    bh.write(&n.to_le_bytes()[..3]);
                    sh.write(&n.to_le_bytes()[..3]);
                    bh.write_u8(7);
                    sh.write_u8(7);
                    bh.write_usize(9);
                    sh.write_usize(9);
                    bh.write_i32(-3);
                    sh.write_i32(-3);
                    if bh.finish() != sh.finish() {
                        v17(rep, "hasher/finish-differs", String::new());
                    }
                }
                13 => {
                    // boxed slices of plain data: comparisons against std
                    let xs: Vec<u16> = (0..rng.below(6)).map(|_| rng.below(4) as u16).collect();
                    let ys: Vec<u16> = (0..rng.below(6)).map(|_| rng.below(4) as u16).collect();
                    let bx: BBox<[u16]> = BBox::from_iter_in(xs.iter().copied(), b);
                    let by: BBox<[u16]> = BBox::from_iter_in(ys.iter().copied(), b);
                    let sx: std::boxed::Box<[u16]> = xs.clone().into_boxed_slice();
                    let sy: std::boxed::Box<[u16]> = ys.clone().into_boxed_slice();
                    if (bx == by) != (sx == sy) || bx.cmp(&by) != sx.cmp(&sy) || h(&bx) != h(&sx) || format!("{:?}", bx) != format!("{:?}", sx) {
                        v17(rep, "slice/comparison-hash-fmt-differs-from-std", String::new());
                    }
                    if bx.iter().copied().collect::<Vec<_>>() != xs {
                        v17(rep, "slice/iteration-differs", String::new());
                    }
                    // boxed slices that share one data address but differ in length: an empty array
                    // boxed right after another box, and slices of zero-sized elements
                    let full: BBox<[u32]> = BBox::new_in([1u32, 2, rng.below(4) as u32], b).into();
                    let empty: BBox<[u32]> = BBox::new_in([0u32; 0], b).into();
                    let z3: BBox<[()]> = BBox::new_in([(); 3], b).into();
                    let z5: BBox<[()]> = BBox::new_in([(); 5], b).into();
                    let same_addr = full.as_ptr() as usize == empty.as_ptr() as usize;
                    rep.bump(if same_addr { "c17.same_address_slice_pairs" } else { "c17.distinct_address_slice_pairs" });
                    let bad_pair = |x: &BBox<[u32]>, y: &BBox<[u32]>| {
                        x.cmp(y) != (**x).cmp(&**y) || x.partial_cmp(y) != (**x).partial_cmp(&**y) || (x == y) != (**x == **y)
                            || (x < y) != (**x < **y) || (x >= y) != (**x >= **y) || std::cmp::max(x, y).len() != std::cmp::max(&**x, &**y).len()
                    };
                    if bad_pair(&full, &empty) || bad_pair(&empty, &full) || bad_pair(&full, &full) {
                        v17(rep, "slice/comparison-of-same-address-slices-differs-from-std", format!("same_addr={}", same_addr));
                    }
                    if z3.cmp(&z5) != (*z3).cmp(&*z5) || z5.cmp(&z3) != (*z5).cmp(&*z3) || (z3 == z5) != (*z3 == *z5) || z3.partial_cmp(&z5) != (*z3).partial_cmp(&*z5) {
                        v17(rep, "slice/comparison-of-zero-sized-element-slices-differs-from-std", String::new());
                    }
                    let mut sorted = [z5, z3];
                    sorted.sort();
                    if sorted[0].len() != 3 || sorted[1].len() != 5 {
                        v17(rep, "slice/sort-of-zero-sized-element-slices-differs-from-std", String::new());
                    }
                }
                14 => {
                    // big value and alignment
                    #[repr(align(64))]
                    #[derive(Clone, Copy, PartialEq, Debug)]
                    struct Big([u64; 40]);
                    let v = Big([rng.next(); 40]);
                    let bx = BBox::new_in(v, b);
                    if *bx != v || (&*bx as *const Big as usize) % 64 != 0 {
                        v17(rep, "aligned-value/changed-or-misaligned", String::new());
                    }
                    let inner = BBox::into_inner(bx);
                    if inner != v {
                        v17(rep, "into_inner/value-changed", String::new());
                    }
                }
                16 => {
                    // a boxed iterator that owns droppable state, consumed through every by-value and
                    // by-reference Iterator method: the state is dropped exactly once, items agree with std
                    struct DropIter {
                        guard: Tracked,
                        cur: u32,
                        end: u32,
                    }
                    impl Iterator for DropIter {
                        type Item = u32;
                        fn next(&mut self) -> Option<u32> {
                            let _ = self.guard.key;
                            if self.cur < self.end {
                                self.cur += 1;
                                Some(self.cur - 1)
                            } else {
                                None
                            }
                        }
                    }
                    let lo = rng.below(5) as u32;
                    let hi = lo + rng.below(6) as u32;
                    let how = rng.below(9);
                    let mark = ledger::log_len();
                    let g = Tracked::new(11);
                    let id = g.id;
                    let dynamic = rng.chance(1, 2);
                    let reference = || lo..hi;
                    macro_rules! consume {
                        ($it:expr) => {{
                            let mut it = $it;
                            let pre = rng.below(3);
                            for _ in 0..pre {
                                let _ = it.next();
                            }
                            let mut r = reference();
                            for _ in 0..pre {
                                let _ = r.next();
                            }
                            let (got, want): (Vec<u32>, Vec<u32>) = match how {
                                0 => (it.last().into_iter().collect(), r.last().into_iter().collect()),
                                1 => (vec![it.count() as u32], vec![r.count() as u32]),
                                2 => (it.collect(), r.collect()),
                                3 => (vec![it.fold(0, |a, x| a + x)], vec![r.fold(0, |a, x| a + x)]),
                                4 => {
                                    let a = it.nth(1);
                                    let b = r.nth(1);
                                    drop(it);
                                    (a.into_iter().collect(), b.into_iter().collect())
                                }
                                5 => {
                                    let mut v = Vec::new();
                                    for x in it {
                                        v.push(x);
                                    }
                                    (v, r.collect())
                                }
                                6 => (it.map(|x| x * 2).filter(|x| x % 4 == 0).collect(), r.map(|x| x * 2).filter(|x| x % 4 == 0).collect()),
                                7 => (vec![it.max().unwrap_or(0), 1], vec![r.max().unwrap_or(0), 1]),
                                _ => {
                                    let s = it.size_hint();
                                    drop(it);
                                    (vec![s.0 as u32], vec![0])
                                }
                            };
                            if got != want {
                                v17(rep, "boxed-iterator/items-differ-from-unboxed", format!("how {} got {:?} want {:?}", how, got, want));
                            }
                        }};
                    }
                    if dynamic {
                        let bx = BBox::new_in(DropIter { guard: g, cur: lo, end: hi }, b);
                        let dy: BBox<dyn Iterator<Item = u32>> = unsafe { BBox::from_raw(BBox::into_raw(bx) as *mut dyn Iterator<Item = u32>) };
                        consume!(dy);
                    } else {
                        let bx = BBox::new_in(DropIter { guard: g, cur: lo, end: hi }, b);
                        consume!(bx);
                    }
                    let d = drops_since(mark);
                    if d != vec![id] {
                        vdrop(rep, &format!("boxed-iterator/state-not-dropped-exactly-once/{}", ["last", "count", "collect", "fold", "nth+drop", "for", "adaptors", "max", "size_hint+drop"][how]), format!("drops {:?} expected [{}] (dyn={})", d, id, dynamic));
                    }
                    rep.bump("c15.box_drop_checks");
                }
                17 => {
                    // arrays of zero-sized elements through the array <-> slice conversions
                    let (m0, d0) = ledger::zst_counts();
                    let arr: BBox<[TrackedZst; 4]> = BBox::new_in([TrackedZst::new(), TrackedZst::new(), TrackedZst::new(), TrackedZst::new()], b);
                    let sl: BBox<[TrackedZst]> = arr.into();
                    if sl.len() != 4 {
                        v17(rep, "zst-array-to-slice/length-changed", format!("{} elements instead of 4", sl.len()));
                    }
                    let (_, d1) = ledger::zst_counts();
                    if d1 != d0 {
                        vdrop(rep, "zst-array-to-slice/destructor-ran-during-conversion", format!("{} drops", d1 - d0));
                    }
                    match <BBox<[TrackedZst; 4]>>::try_from(sl) {
                        Ok(back) => drop(back),
                        Err(orig) => {
                            v17(rep, "zst-slice-to-array/rejected-right-length", format!("len {}", orig.len()));
                            drop(orig);
                        }
                    }
                    let (m2, d2) = ledger::zst_counts();
                    if m2 - m0 != 4 || d2 - d0 != 4 {
                        vdrop(rep, "zst-array-conversions/elements-not-dropped-exactly-once", format!("minted {} dropped {}", m2 - m0, d2 - d0));
                    }
                    let unit: BBox<[(); 3]> = BBox::new_in([(); 3], b);
                    let us: BBox<[()]> = unit.into();
                    if us.len() != 3 {
                        v17(rep, "zst-array-to-slice/length-changed", format!("{} units instead of 3", us.len()));
                    }
                    rep.bump("c15.box_drop_checks");
                }
                18 => {
                    // collecting into a boxed slice from an iterator that panics part-way: nothing may be
                    // dropped twice and no uninitialised slot may be dropped (exact and inexact hints)
                    let n = rng.range(1, 6);
                    let fail_at = rng.below(n + 2);
                    let exact = rng.chance(1, 2);
                    let mark = ledger::log_len();
                    let minted_before = ledger::minted();
                    let r = std::panic::catch_unwind(std::panic::AssertUnwindSafe(|| {
                        let it = (0..n).map(|i| {
                            if i == fail_at {
                                std::panic::panic_any(ledger::FusePanic);
                            }
                            Tracked::new(i as u32)
                        });
                        if exact {
                            let bx: BBox<[Tracked]> = BBox::from_iter_in(it, b);
                            bx.len()
                        } else {
                            let bx: BBox<[Tracked]> = BBox::from_iter_in(it.filter(|_| true), b);
                            bx.len()
                        }
                    }));
                    let minted = ledger::minted() - minted_before;
                    let d = drops_since(mark);
                    let dd = ledger::doubles();
                    if !dd.is_empty() || d.len() as u32 > minted || !ledger::unknowns().is_empty() {
                        rep.violate("C17", "C17/from_iter_in/panicking-iterator/dropped-more-than-created", format!("created {} dropped {:?} (n {} fail_at {} exact {})", minted, d, n, fail_at, exact));
                        rep.violate("C16", "C16/boxed-slice-from_iter_in/dropped-more-than-created", format!("created {} dropped {:?}", minted, d));
                    }
                    if r.is_ok() && d.len() as u32 != minted {
                        vdrop(rep, "from_iter_in/elements-not-dropped-exactly-once", format!("created {} dropped {}", minted, d.len()));
                    }
                    rep.bump("c15.box_drop_checks");
                }
                20 => {
                    // boxed slices of zero-sized droppable elements, made the ways that never allocate
                    // (the buffer pointer is dangling, the length is not zero)
                    use bumpalo::collections::CollectIn;
                    let n = rng.below(9);
                    let how = rng.below(10);
                    let (m0, d0) = ledger::zst_counts();
                    if how >= 6 {
                        // single zero-sized droppable values and arrays of them through into_inner / raw round trips / leak
                        let (made, dropped_by_box, dropped_at_end): (u64, u64, u64) = match how {
                            6 => {
                                let bx = BBox::new_in(TrackedZst::new(), b);
                                let inner = BBox::into_inner(bx);
                                let (_, d1) = ledger::zst_counts();
                                drop(inner);
                                (1, d1 - d0, ledger::zst_counts().1 - d0)
                            }
                            7 => {
                                let bx = BBox::new_in([TrackedZst::new(), TrackedZst::new(), TrackedZst::new()], b);
                                let inner = BBox::into_inner(bx);
                                let (_, d1) = ledger::zst_counts();
                                drop(inner);
                                (3, d1 - d0, ledger::zst_counts().1 - d0)
                            }
                            8 => {
                                let bx = BBox::new_in(TrackedZst::new(), b);
                                let raw = BBox::into_raw(bx);
                                let bx = unsafe { BBox::from_raw(raw) };
                                let inner = BBox::into_inner(bx);
                                let (_, d1) = ledger::zst_counts();
                                drop(inner);
                                (1, d1 - d0, ledger::zst_counts().1 - d0)
                            }
                            _ => {
                                let bx = BBox::new_in(TrackedZst::new(), b);
                                let leaked: &mut TrackedZst = BBox::leak(bx);
                                let _ = leaked;
                                let (_, d1) = ledger::zst_counts();
                                // leaked on purpose: the destructor never runs
                                (0, d1 - d0, ledger::zst_counts().1 - d0)
                            }
                        };
                        if dropped_by_box != 0 {
                            v17(rep, "zst-box/destructor-ran-inside-into_inner-or-leak", format!("how {}: {} destructor call(s) before the caller let go of the value", how, dropped_by_box));
                            vdrop(rep, "zst-box/destructor-ran-inside-into_inner-or-leak", format!("how {}: {} call(s)", how, dropped_by_box));
                        }
                        if dropped_at_end != made {
                            v17(rep, "zst-box/value-not-dropped-exactly-once", format!("how {}: {} value(s) owned by the caller, {} destructor call(s)", how, made, dropped_at_end));
                            vdrop(rep, "zst-box/value-not-dropped-exactly-once", format!("how {}: {} value(s), {} destructor call(s)", how, made, dropped_at_end));
                        }
                        rep.bump("c17.zst_boxed_slice_cases");
                        rep.bump("c15.box_drop_checks");
                        continue;
                    }
                    let bx: BBox<[TrackedZst]> = match how {
                        0 => {
                            let mut v: BVec<TrackedZst> = BVec::new_in(b);
                            for _ in 0..n {
                                v.push(TrackedZst::new());
                            }
                            v.into_boxed_slice()
                        }
                        1 => {
                            let mut v: BVec<TrackedZst> = BVec::with_capacity_in(n + 2, b);
                            for _ in 0..n {
                                v.push(TrackedZst::new());
                            }
                            v.into()
                        }
                        2 => BBox::from_iter_in((0..n).map(|_| TrackedZst::new()), b),
                        3 => (0..n).map(|_| TrackedZst::new()).collect_in::<BBox<[TrackedZst]>>(b),
                        4 => {
                            let v: BVec<TrackedZst> = BVec::from_iter_in((0..n).map(|_| TrackedZst::new()), b);
                            let bx: BBox<[TrackedZst]> = v.into_boxed_slice();
                            let raw = BBox::into_raw(bx);
                            unsafe { BBox::from_raw(raw) }
                        }
                        _ => {
                            let v: BVec<TrackedZst> = bumpalo::vec![in b; TrackedZst::new(), TrackedZst::new(), TrackedZst::new()];
                            v.into()
                        }
                    };
                    let want = if how == 5 { 3 } else { n as u64 };
                    let (m1, d1) = ledger::zst_counts();
                    if bx.len() as u64 != want || m1 - m0 != want {
                        v17(rep, "zst-boxed-slice/length-differs", format!("how {} len {} wanted {} minted {}", how, bx.len(), want, m1 - m0));
                    }
                    if d1 != d0 {
                        vdrop(rep, "zst-boxed-slice/destructor-ran-during-conversion", format!("how {} {} drops", how, d1 - d0));
                    }
                    drop(bx);
                    let (_, d2) = ledger::zst_counts();
                    if d2 - d0 != want {
                        v17(rep, "zst-boxed-slice/elements-not-dropped-exactly-once", format!("how {}: {} elements, {} destructor calls", how, want, d2 - d0));
                        vdrop(rep, "zst-boxed-slice/elements-not-dropped-exactly-once", format!("how {}: {} elements, {} destructor calls", how, want, d2 - d0));
                    }
                    rep.bump("c17.zst_boxed_slice_cases");
                    rep.bump("c15.box_drop_checks");
                }
                21 => {
                    // a boxed slice is a live block of its arena: released to a raw pointer it must lie inside
                    // exactly one of the arena's chunk slices, also after later allocations (C10, C01)
                    boxed_slice_in_chunks(&mut rng, rep);
                }
                _ => {
                    // a box dropped while younger allocations exist: nothing of theirs changes
                    let t = BBox::new_in(Tracked::new(3), b);
                    let young = b.alloc_slice_fill_copy(40, 0x33u8) as *const [u8];
                    drop_box_monitored(rep, b, t, "older-box");
                    let after = b.alloc_slice_fill_copy(16, 0x44u8) as *const [u8];
                    if unsafe { (&*young).iter().any(|x| *x != 0x33) || (&*after).iter().any(|x| *x != 0x44) } {
                        v17(rep, "drop/younger-allocation-changed", String::new());
                    }
                }
            }
            if unsafe { (&*canary).iter().any(|x| *x != 0x77) } {
                v17(rep, "neighbour/canary-changed", String::new());
            }
            let d = ledger::doubles();
            if !d.is_empty() {
                vdrop(rep, "double-drop", format!("{:?}", d));
            }
            let g = ledger::take_garbage_drops();
            if g > 0 {
                vdrop(rep, "destructor-ran-on-a-slot-that-holds-no-value", format!("{} call(s)", g));
            }
            if rep.violations.len() >= rep.max_violations {
                break;
            }
        }
        ledger::set_side(0);
        halloc::set_always(false);
        rep.evaluations += 1;
        rep.distinct.insert(sig);
        if it == 0 {
            let mut j = J::obj();
            j.set("program_seed", J::i(pseed));
            j.set("scenarios", J::s("22 kinds: sized eq/ord/hash/fmt, tracked drop, into_inner, into_raw/from_raw/leak, ZST, boxed slices, array<->slice conversions (hit and miss), Vec->Box<[T]> followed by later allocations, dyn Any / dyn Any+Send downcast hit and miss, boxed iterators, futures and pin_in, str/default, Hasher, slice comparisons, aligned values, drop with younger neighbours, boxed slices of zero-sized droppable elements (six constructions), boxed slices located in the chunk iteration"));
            rep.sample(j);
        }
        if rep.violations.len() >= rep.max_violations {
            break;
        }
    }
}
