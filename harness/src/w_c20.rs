//! C20: arenas are isolated from each other, also across threads.
//!  * single thread: the normalised trace of arena A (per call: outcome, placement offset from the
//!    chunk base, chunk sizes, capacity, accounting) must be the same whether A runs alone or
//!    interleaved with other arenas that are created, used, reset and dropped in between;
//!  * threads: the same with every arena on its own thread (barriers between calls force overlap),
//!    plus hand-over of an idle arena between threads in the middle of its history;
//!  * the same workloads run under ThreadSanitizer and Miri, whose reports are collected by the
//!    driver (data races with a frame inside bumpalo).
use crate::arena::*;
use crate::gen::{self, Profile};
use crate::halloc::Env;
use crate::json::J;
use crate::report::{fnv, Report};
use crate::rng::Rng;
use crate::Args;
use std::sync::atomic::{AtomicU64, Ordering};
use std::sync::{Arc, Barrier};

static TICKET: AtomicU64 = AtomicU64::new(0);

fn profile() -> Profile {
    let mut p = Profile::general();
    p.w[15] = 0; // the engine's own drop-on-thread op: threads are driven explicitly here
    p.w[16] = 0;
    p.w[13] = 4; // reconstruct often: arenas that hold no memory are the interesting state
    p.w[9] = 5;
    p.max_size = if cfg!(miri) { 400 } else { 3000 };
    p
}

fn env() -> Env {
    Env { skew: 3, junk: !cfg!(miri), scribble: !cfg!(miri), quarantine: false, cap: 64 << 20 }
}

struct SendSim<const M: usize>(Sim<M>);
unsafe impl<const M: usize> Send for SendSim<M> {}

fn fresh<const M: usize>(seed: u64, rep: &mut Report) -> Sim<M> {
    env().apply(seed);
    // half of the arenas start without memory, so that first requests hit the shared sentinel
    let cap = if seed & 1 == 0 { None } else { Some((seed >> 20) as usize % 2000) };
    let mut s = Sim::<M>::new(seed, rep, cap, false).expect("constructor without faults");
    s.trace_on = true;
    s.verify_every = 1;
    s
}

fn solo<const M: usize>(seed: u64, nops: usize, rep: &mut Report) -> (Vec<u64>, Vec<String>) {
    let p = profile();
    let mut s = fresh::<M>(seed, rep);
    for _ in 0..nops {
        gen::step(&mut s, rep, &p);
    }
    s.drop_arena(rep);
    (std::mem::take(&mut s.trace), std::mem::take(&mut s.oplog))
}

fn compare(rep: &mut Report, a: &(Vec<u64>, Vec<String>), b: &(Vec<u64>, Vec<String>), how: &str) {
    rep.add("c20.trace_entries_compared", a.0.len().min(b.0.len()) as u64);
    if a.0 != b.0 {
        let i = (0..a.0.len().min(b.0.len())).find(|&i| a.0[i] != b.0[i]).unwrap_or(a.0.len().min(b.0.len()));
        rep.violate(
            "C20",
            format!("C20/trace-differs-from-solo-run/{}", how),
            format!("first difference at trace entry {} of {}/{}: solo `{}` vs {} `{}`", i, a.0.len(), b.0.len(), a.1.get(i).cloned().unwrap_or_default(), how, b.1.get(i).cloned().unwrap_or_default()),
        );
    }
}

pub fn run(args: &Args, rep: &mut Report) {
    crate::dispatch_ma!(args.ma, run_m, args, rep)
}

fn run_m<const M: usize>(args: &Args, rep: &mut Report) {
    let mut top = Rng::new(Rng::mix(args.seed ^ 0xC20, args.shard ^ ((M as u64) << 40)));
    let nthreads = args.get_usize("threads", 4);
    let do_single = args.get_usize("single", 1) == 1;
    let do_threads = args.get_usize("mt", 1) == 1;
    let p = profile();
    for it in 0..args.iters {
        let seeds: Vec<u64> = (0..nthreads.max(3)).map(|_| top.next()).collect();
        rep.ctx = format!("C20 iteration {} (seed {} shard {} M {})", it, args.seed, args.shard, M);
        let solos: Vec<(Vec<u64>, Vec<String>)> = seeds.iter().map(|&s| solo::<M>(s, args.ops, rep)).collect();
        // ---------------------------------------------------------------- single-thread interleaving
        if do_single {
            let mut a = fresh::<M>(seeds[0], rep);
            let mut others: Vec<Sim<M>> = Vec::new();
            let mut orng = Rng::new(seeds[0] ^ 0xABCD);
            let mut order = 0u64;
            for _ in 0..args.ops {
                // some activity on other arenas between two calls on A
                for _ in 0..orng.below(4) {
                    match orng.below(10) {
                        0 | 1 => {
                            if others.len() < 4 {
                                let s = orng.next();
                                let mut o = fresh::<M>(s, rep);
                                o.trace_on = false;
                                others.push(o);
                                order = fnv(order, 1);
                            }
                        }
                        2 => {
                            if !others.is_empty() {
                                let i = orng.below(others.len());
                                let mut o = others.swap_remove(i);
                                o.drop_arena(rep);
                                order = fnv(order, 2);
                            }
                        }
                        _ => {
                            if !others.is_empty() {
                                let i = orng.below(others.len());
                                // the *other* arenas also meet a refusing global allocator now and then;
                                // that must not change anything for A either
                                match orng.below(6) {
                                    0 => crate::halloc::set_refuse(crate::halloc::Refuse::All),
                                    1 => crate::halloc::set_refuse(crate::halloc::Refuse::Above(orng.range(500, 9000))),
                                    _ => {}
                                }
                                gen::step(&mut others[i], rep, &p);
                                crate::halloc::set_refuse(crate::halloc::Refuse::None);
                                rep.bump("c20.other_arena_ops");
                                order = fnv(order, 3 + i as u64);
                            }
                        }
                    }
                }
                env().apply(seeds[0]);
                gen::step(&mut a, rep, &p);
                order = fnv(order, 99);
            }
            a.drop_arena(rep);
            for mut o in others {
                o.drop_arena(rep);
            }
            let got = (std::mem::take(&mut a.trace), std::mem::take(&mut a.oplog));
            compare(rep, &solos[0], &got, "single-thread-interleaved");
            rep.bump("c20.single_thread_interleavings");
            rep.distinct.insert(order);
            rep.evaluations += 1;
        }
        // ---------------------------------------------------------------- one arena per thread
        if do_threads {
            let barrier = Arc::new(Barrier::new(nthreads));
            let every = 1 + (top.below(4));
            let mut handles = Vec::new();
            for t in 0..nthreads {
                let seed = seeds[t];
                let nops = args.ops;
                let barrier = barrier.clone();
                handles.push(std::thread::spawn(move || {
                    let mut rep = Report::new();
                    rep.ctx = format!("C20 thread {} seed {}", t, seed);
                    let p = profile();
                    let mut s = fresh::<M>(seed, &mut rep);
                    let mut tickets = Vec::with_capacity(nops);
                    let faulty = t == 1;
                    let mut frng = Rng::new(seed ^ 0xFA);
                    for i in 0..nops {
                        if i % every == 0 {
                            barrier.wait();
                        }
                        tickets.push(TICKET.fetch_add(1, Ordering::Relaxed));
                        if faulty {
                            // this thread's arena lives with a refusing allocator (its trace is not
                            // compared); the other threads' arenas must not notice
                            match frng.below(5) {
                                0 => crate::halloc::set_refuse(crate::halloc::Refuse::All),
                                1 => crate::halloc::set_refuse(crate::halloc::Refuse::Above(frng.range(500, 9000))),
                                _ => crate::halloc::set_refuse(crate::halloc::Refuse::None),
                            }
                        }
                        gen::step(&mut s, &mut rep, &p);
                    }
                    crate::halloc::set_refuse(crate::halloc::Refuse::None);
                    s.drop_arena(&mut rep);
                    (std::mem::take(&mut s.trace), std::mem::take(&mut s.oplog), tickets, rep)
                }));
            }
            let mut all_tickets: Vec<(u64, usize)> = Vec::new();
            for (t, h) in handles.into_iter().enumerate() {
                match h.join() {
                    Ok((tr, log, tickets, trep)) => {
                        if t != 1 {
                            compare(rep, &solos[t], &(tr, log), "own-thread-concurrent");
                        }
                        for v in trep.violations {
                            rep.violate(v.prop, v.sig, format!("{} [thread {}]", v.detail, t));
                        }
                        for (k, v) in trep.counters {
                            rep.add(&k, v);
                        }
                        for tk in tickets {
                            all_tickets.push((tk, t));
                        }
                    }
                    Err(_) => rep.violate("C20", "C20/thread-panicked", format!("thread {}: {}", t, last_panic())),
                }
            }
            all_tickets.sort();
            let mut sig = 0u64;
            let mut switches = 0u64;
            for w in all_tickets.windows(2) {
                if w[0].1 != w[1].1 {
                    switches += 1;
                }
            }
            for (_, t) in &all_tickets {
                sig = fnv(sig, *t as u64);
            }
            rep.distinct.insert(sig);
            rep.add("c20.thread_switches_observed", switches);
            rep.bump("c20.multi_thread_runs");
            rep.evaluations += 1;
            // ------------------------------------------------------------ hand-over between threads
            let seed = seeds[0];
            let mut s = fresh::<M>(seed, rep);
            let hops = 3;
            let per = args.ops / (hops + 1);
            let mut done = 0;
            for hop in 0..=hops {
                let n = if hop == hops { args.ops - done } else { per };
                if hop % 2 == 0 {
                    env().apply(seed);
                    for _ in 0..n {
                        gen::step(&mut s, rep, &p);
                    }
                } else {
                    // idle: nothing borrows from the arena while it changes threads.  The harness'
                    // own raw pointers are bookkeeping; they are not touched during the move.
                    let boxed = SendSim(s);
                    let (tx, rx) = std::sync::mpsc::channel();
                    tx.send(boxed).unwrap();
                    let h = std::thread::spawn(move || {
                        let mut rep = Report::new();
                        let SendSim(mut s) = rx.recv().unwrap();
                        env().apply(seed);
                        let p = profile();
                        for _ in 0..n {
                            gen::step(&mut s, &mut rep, &p);
                        }
                        (SendSim(s), rep)
                    });
                    let (SendSim(back), trep) = h.join().expect("hand-over thread");
                    s = back;
                    for v in trep.violations {
                        rep.violate(v.prop, v.sig, format!("{} [hand-over thread]", v.detail));
                    }
                }
                done += n;
            }
            env().apply(seed);
            if top.chance(1, 2) {
                s.drop_arena_on_other_thread(rep);
                s.trace.push(0); // keep lengths comparable: the solo run records a drop marker
                let mut solo_t = solos[0].clone();
                solo_t.0.pop();
                s.trace.pop();
                compare(rep, &solo_t, &(std::mem::take(&mut s.trace), std::mem::take(&mut s.oplog)), "handed-over-between-threads");
            } else {
                s.drop_arena(rep);
                compare(rep, &solos[0], &(std::mem::take(&mut s.trace), std::mem::take(&mut s.oplog)), "handed-over-between-threads");
            }
            rep.bump("c20.hand_over_runs");
            rep.evaluations += 1;
        }
        if it == 0 {
            let mut j = J::obj();
            j.set("arena_seeds", J::Arr(seeds.iter().map(|s| J::i(*s)).collect()));
            j.set("min_align", J::i(M as u64));
            j.set("threads", J::i(nthreads as u64));
            j.set("first_ops_of_arena_0", J::Arr(solos[0].1.iter().take(6).map(|d| J::s(d.clone())).collect()));
            rep.sample(j);
        }
        if rep.violations.len() >= rep.max_violations {
            break;
        }
    }
}

/// Minimal, detector-oriented workload (TSan / Miri): threads that each own arenas which hold no
/// memory yet and make zero-sized / over-aligned / ordinary first requests, resets and drops.
pub fn run_race(args: &Args, rep: &mut Report) {
    use bumpalo::Bump;
    use std::alloc::Layout;
    let nthreads = args.get_usize("threads", 4);
    let rounds = args.iters.max(1);
    let only = args.get_usize("only", usize::MAX);
    let barrier = Arc::new(Barrier::new(nthreads));
    let mut hs = Vec::new();
    for t in 0..nthreads {
        let barrier = barrier.clone();
        let seed = args.seed;
        hs.push(std::thread::spawn(move || {
            let mut rng = Rng::new(Rng::mix(seed, t as u64));
            let mut sum = 0usize;
            for _ in 0..rounds {
                barrier.wait();
                macro_rules! go {
                    ($M:expr) => {{
                        let mut b = Bump::<$M>::with_min_align();
                        for _ in 0..6 {
                            match if only != usize::MAX { only } else { rng.below(13) } {
                                0 => sum += b.alloc(()) as *mut () as usize & 1,
                                1 => sum += b.alloc_layout(Layout::from_size_align(0, 1).unwrap()).as_ptr() as usize & 1,
                                2 => sum += b.alloc_layout(Layout::from_size_align(0, 16).unwrap()).as_ptr() as usize & 1,
                                3 => sum += b.alloc_slice_copy::<u64>(&[]).len(),
                                4 => sum += b.alloc_str("").len(),
                                5 => sum += b.chunk_capacity() + b.allocated_bytes() + b.allocated_bytes_including_metadata(),
                                6 => b.reset(),
                                7 => sum += *b.alloc(5u32) as usize,
                                8 => sum += b.iter_allocated_chunks().count(),
                                9 => {
                                    // fallible initialisers whose whole Result slot is zero-sized
                                    let z: Result<&mut std::convert::Infallible, ()> = b.alloc_try_with(|| Err(()));
                                    sum += z.is_err() as usize;
                                    let z2 = b.try_alloc_try_with(|| Err::<std::convert::Infallible, ()>(()));
                                    sum += z2.is_err() as usize;
                                    let r3: Result<&mut [()], ()> = b.alloc_slice_try_fill_with(3, |i| if i == 1 { Err(()) } else { Ok(()) });
                                    sum += r3.is_err() as usize;
                                    let r4: Result<&mut [u64], ()> = b.alloc_slice_try_fill_with(0, |_| Err(()));
                                    sum += r4.is_ok() as usize;
                                }
                                12 => {
                                    // the same with sized results (these obtain memory)
                                    let r: Result<&mut (), ()> = b.alloc_try_with(|| Err(()));
                                    sum += r.is_err() as usize;
                                    let r2 = b.try_alloc_try_with(|| Ok::<(), ()>(()));
                                    sum += r2.is_ok() as usize;
                                }
                                10 => {
                                    // Allocator trait with zero-sized layouts
                                    use allocator_api2::alloc::Allocator;
                                    let a = &b;
                                    let l0 = Layout::from_size_align(0, 8).unwrap();
                                    if let Ok(p) = a.allocate(l0) {
                                        let p = p.cast::<u8>();
                                        unsafe {
                                            let p2 = a.grow(p, l0, l0).map(|x| x.cast::<u8>()).unwrap_or(p);
                                            let p3 = a.shrink(p2, l0, Layout::from_size_align(0, 1).unwrap()).map(|x| x.cast::<u8>()).unwrap_or(p2);
                                            a.deallocate(p3, Layout::from_size_align(0, 1).unwrap());
                                            sum += p3.as_ptr() as usize & 1;
                                        }
                                    }
                                    let v: allocator_api2::vec::Vec<(), _> = allocator_api2::vec::Vec::new_in(a);
                                    sum += v.len();
                                }
                                _ => {
                                    b.set_allocation_limit(Some(rng.below(3)));
                                    sum += b.try_alloc_layout(Layout::from_size_align(0, 4).unwrap()).is_ok() as usize;
                                    sum += b.allocation_limit().unwrap_or(0);
                                    b.set_allocation_limit(None);
                                }
                            }
                        }
                        drop(b);
                    }};
                }
                match rng.below(5) {
                    0 => go!(1),
                    1 => go!(8),
                    2 => go!(16),
                    3 => {
                        // iterators and drains are Send when their items are: handing one to another thread and
                        // dropping it there must not touch this thread's arena (which keeps working meanwhile)
                        let b = Bump::new();
                        let v: bumpalo::collections::Vec<u64> = bumpalo::collections::Vec::from_iter_in(0..40u64, &b);
                        let mut w: bumpalo::collections::Vec<u64> = bumpalo::collections::Vec::from_iter_in(0..16u64, &b);
                        let stats0 = (b.allocated_bytes(), b.chunk_capacity());
                        let mut it = v.into_iter();
                        sum += it.next().unwrap_or(0) as usize;
                        let d = w.drain(2..9);
                        std::thread::scope(|sc| {
                            sc.spawn(move || {
                                drop(it);
                                drop(d);
                            });
                        });
                        // joined: nothing the other thread did may show in this arena's statistics
                        let stats1 = (b.allocated_bytes(), b.chunk_capacity());
                        if stats0 != stats1 {
                            sum += 1 << 40; // reported below through the sentinel in `total`
                        }
                        let it2 = bumpalo::collections::Vec::from_iter_in(0..24u64, &b).into_iter();
                        std::thread::scope(|sc| {
                            sc.spawn(move || drop(it2));
                            for i in 0..12u64 {
                                sum += *b.alloc(i) as usize & 1;
                            }
                        });
                        sum += w.len();
                    }
                    _ => {
                        // collections that never needed memory, on an arena that holds none
                        let b = Bump::new();
                        let mut v: bumpalo::collections::Vec<()> = bumpalo::collections::Vec::new_in(&b);
                        v.push(());
                        v.extend_from_slice_copy(&[(), ()]);
                        v.shrink_to_fit();
                        sum += v.len();
                        let mut e: bumpalo::collections::Vec<u64> = bumpalo::collections::Vec::new_in(&b);
                        e.shrink_to_fit();
                        e.reserve(0);
                        sum += e.capacity();
                        let mut s = bumpalo::collections::String::new_in(&b);
                        s.push_str("");
                        s.shrink_to_fit();
                        sum += s.len();
                        let bx = bumpalo::boxed::Box::new_in((), &b);
                        drop(bx);
                        let sl: bumpalo::boxed::Box<[u32]> = bumpalo::boxed::Box::from_iter_in(std::iter::empty(), &b);
                        sum += sl.len();
                        drop(v);
                        drop(e);
                    }
                }
            }
            sum
        }));
    }
    let mut total = 0;
    for h in hs {
        total += h.join().unwrap_or(0);
    }
    if total >= 1 << 40 {
        rep.violate("C20", "C20/dropping-a-sent-iterator-on-another-thread-changed-the-arena", format!("{} time(s): allocated_bytes / chunk_capacity of the owning arena differ before and after another thread dropped an IntoIter / Drain of one of its vectors", total >> 40));
    }
    rep.evaluations += rounds as u64;
    rep.add("c20.race_rounds", (rounds * nthreads) as u64);
    rep.distinct.insert(fnv(args.seed, nthreads as u64));
    rep.distinct.insert(fnv(args.seed, total as u64 | 1 << 40));
    let mut j = J::obj();
    j.set("race_workload", J::s("N threads x rounds: each round every thread creates its own Bump<1|8|16> that holds no memory and performs zero-sized / empty-slice / over-aligned / ordinary first requests, observers, reset, iteration, drop; barrier before each round"));
    rep.sample(j);
}
