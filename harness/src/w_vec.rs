//! Workload "vecdiff": programs over several bumpalo Vecs (u8, u64, [u8;24], (), Tracked) living in
//! ONE arena next to a String, Boxes and raw canary allocations, each mirrored by a std Vec.
//! C13: same results / contents / panics as std, capacity promises, neighbours undisturbed.
//! C15: per-op drop sets equal to std's, nothing dropped twice, nothing reachable after its drop,
//! leak-by-design conversions never run destructors, end-of-program live sets equal.
use crate::halloc::{self, Env};
use crate::json::J;
use crate::ledger::{self, Tracked, TrackedZst};
use crate::report::{fnv, Report};
use crate::rng::Rng;
use crate::vecprog::*;
use crate::Args;
use bumpalo::boxed::Box as BBox;
use bumpalo::collections::{String as BString, Vec as BVec};
use bumpalo::Bump;

trait PairDyn {
    fn step(&mut self, rng: &mut Rng, rep: &mut Report) -> u64;
    fn check(&self, rep: &mut Report);
    fn finish(self: Box<Self>, rep: &mut Report);
    /// (start, bytes, what) of every block this pair currently claims in the arena
    fn extents(&self, out: &mut Vec<(usize, usize, &'static str)>);
    /// bytes of the vector's buffer, or of the buffer it had before the last op if it has none now
    fn cap_bytes(&self) -> usize;
}
impl<'b, T: El> PairDyn for Pair<'b, T> {
    fn step(&mut self, rng: &mut Rng, rep: &mut Report) -> u64 {
        let op = gen_op::<T>(rng, self.sv.len());
        let h = op.name().len() as u64 * 31 + op.name().as_bytes()[0] as u64;
        let fuse = if T::TRACKED && matches!(op, VOp::Resize(..) | VOp::ExtendFromSlice(..) | VOp::CloneSwap | VOp::MacroRepeat(..)) && rng.chance(1, 3) {
            Some((ledger::F_CLONE, rng.range(1, 6) as u64))
        } else if matches!(op, VOp::Splice(..)) && rng.chance(1, 3) {
            // the replacement iterator panics in its k-th `next`, on both sides alike
            Some((ledger::F_ITER, rng.range(1, 7) as u64))
        } else {
            None
        };
        self.run_op_fused(rep, &op, true, fuse);
        rep.bump(&format!("vop.{}", op.name()));
        h
    }
    fn check(&self, rep: &mut Report) {
        Pair::check(self, rep, "neighbour-activity");
    }
    fn finish(self: Box<Self>, rep: &mut Report) {
        Pair::finish(*self, rep)
    }
    fn cap_bytes(&self) -> usize {
        let c = self.bv.capacity().saturating_mul(std::mem::size_of::<T>());
        if c > 0 && c < 4096 {
            c
        } else {
            self.last_cap_bytes.min(4095)
        }
    }
    fn extents(&self, out: &mut Vec<(usize, usize, &'static str)>) {
        let sz = std::mem::size_of::<T>();
        out.push((self.bv.as_ptr() as usize, self.bv.capacity().saturating_mul(sz), "vector buffer (whole capacity)"));
        for (bx, _) in &self.kept.boxes {
            out.push((bx.as_ptr() as usize, bx.len() * sz, "boxed slice from into_boxed_slice"));
        }
        for (p, n, _) in &self.kept.slices {
            out.push((*p as usize, *n * sz, "slice from into_bump_slice"));
        }
    }
}

pub fn run(args: &Args, rep: &mut Report) {
    let mut top = Rng::new(Rng::mix(args.seed ^ 0xC13, args.shard));
    let tracked_heavy = args.get_usize("tracked", 0) == 1;
    for it in 0..args.iters {
        let pseed = top.next();
        let mut rng = Rng::new(pseed);
        Env::from_seed(pseed >> 8, args.instrumented).apply(pseed);
        halloc::set_always(true);
        ledger::reset();
        ledger::zst_reset();
        rep.ctx = format!("vecdiff program {} (seed {} shard {})", it, args.seed, args.shard);
        let mut bump = match pseed % 4 {
            0 => Bump::with_capacity(((pseed >> 20) % 4000) as usize),
            _ => Bump::new(),
        };
        let mut sig = 0u64;
        let mut raw_blocks: Vec<(usize, usize)> = Vec::new();
        {
            let b = &bump;
            let mut pairs: Vec<Box<dyn PairDyn + '_>> = Vec::new();
            if tracked_heavy {
                pairs.push(Box::new(Pair::<Tracked>::new(b)));
                pairs.push(Box::new(Pair::<Tracked>::new(b)));
                pairs.push(Box::new(Pair::<u64>::new(b)));
            } else {
                pairs.push(Box::new(Pair::<u8>::new(b)));
                pairs.push(Box::new(Pair::<u64>::new(b)));
                pairs.push(Box::new(Pair::<[u8; 24]>::new(b)));
                pairs.push(Box::new(Pair::<()>::new(b)));
                pairs.push(Box::new(Pair::<Tracked>::new(b)));
            }
            // neighbours: raw canaries, a string, boxes
            let mut canaries: Vec<(*const u8, usize, u8)> = Vec::new();
            let mut nstr = BString::new_in(b);
            let mut nstr_ref = String::new();
            let mut boxes: Vec<(BBox<'_, [u64; 3]>, u64)> = Vec::new();
            for opi in 0..args.ops {
                rep.ctx = format!("vecdiff program {} op {} (seed {} shard {})", it, opi, args.seed, args.shard);
                match rng.below(12) {
                    0 => {
                        // a raw neighbour; every third one has exactly the size of some vector's (present or
                        // just released) buffer, so that it can land on an address a vector used to own
                        let same = if rng.chance(1, 3) { pairs[rng.below(pairs.len())].cap_bytes() } else { 0 };
                        let n = if same > 0 { same } else { rng.range(1, 40) };
                        let byte = rng.below(250) as u8 + 1;
                        let s = b.alloc_slice_fill_copy(n, byte);
                        canaries.push((s.as_ptr(), n, byte));
                    }
                    1 => {
                        let c = ['a', 'é', '€', '😀'][rng.below(4)];
                        nstr.push(c);
                        nstr_ref.push(c);
                    }
                    2 => {
                        let k = rng.next();
                        if boxes.len() < 12 {
                            boxes.push((BBox::new_in([k, !k, k ^ 5], b), k));
                        } else {
                            let i = rng.below(boxes.len());
                            boxes.swap_remove(i);
                        }
                    }
                    _ => {
                        let i = rng.below(pairs.len());
                        let h = pairs[i].step(&mut rng, rep);
                        sig = fnv(sig, h * 8 + i as u64);
                    }
                }
                if opi % 6 == 0 {
                    for p in pairs.iter() {
                        p.check(rep);
                    }
                    for (p, n, byte) in &canaries {
                        let s = unsafe { std::slice::from_raw_parts(*p, *n) };
                        if s.iter().any(|x| x != byte) {
                            rep.violate("C13", "C13/neighbour/raw-canary-changed", format!("{} bytes of {:#x}", n, byte));
                        }
                    }
                    if nstr.as_str() != nstr_ref.as_str() {
                        rep.violate("C13", "C13/neighbour/string-changed", String::new());
                    }
                    for (bx, k) in &boxes {
                        if **bx != [*k, !*k, *k ^ 5] {
                            rep.violate("C13", "C13/neighbour/box-changed", String::new());
                        }
                    }
                    rep.bump("c13.neighbour_checks");
                    // C01 at the collections layer: the blocks the live containers claim are pairwise disjoint
                    let mut ext: Vec<(usize, usize, &'static str)> = Vec::new();
                    for p in pairs.iter() {
                        p.extents(&mut ext);
                    }
                    for (p, n, _) in &canaries {
                        ext.push((*p as usize, *n, "raw slice"));
                    }
                    ext.push((nstr.as_ptr() as usize, nstr.capacity(), "string buffer (whole capacity)"));
                    for (bx, _) in &boxes {
                        ext.push((&**bx as *const [u64; 3] as usize, 24, "box"));
                    }
                    ext.retain(|e| e.1 > 0);
                    ext.sort();
                    for w in ext.windows(2) {
                        if w[0].0 + w[0].1 > w[1].0 {
                            rep.violate("C01", "C01/collections/blocks-claimed-by-two-live-containers-overlap", format!("{} [{:#x}, +{}) and {} [{:#x}, +{})", w[0].2, w[0].0, w[0].1, w[1].2, w[1].0, w[1].1));
                            break;
                        }
                    }
                    rep.add("c01.collection_blocks_checked_for_overlap", ext.len() as u64);
                }
                if rep.violations.len() >= rep.max_violations {
                    break;
                }
            }
            for p in pairs {
                p.finish(rep);
            }
            drop(boxes);
            drop(nstr);
            raw_blocks.extend(canaries.iter().map(|(p, n, _)| (*p as usize, *n)));
        }
        // C10 / C01 after every container of this arena is gone: the raw slices allocated in between are
        // live blocks and still lie inside the allocated part of exactly one chunk
        {
            let slices: Vec<(usize, usize)> = unsafe { bump.iter_allocated_chunks_raw() }.map(|(p, l)| (p as usize, l)).collect();
            for (p, n) in &raw_blocks {
                let inside = slices.iter().filter(|(cp, cl)| *cp <= *p && *p + *n <= *cp + *cl).count();
                if inside != 1 {
                    rep.violate("C10", "C10/iter/live-raw-block-outside-the-allocated-region-after-the-containers-were-dropped", format!("block [{:#x}, +{}) lies in {} of {} chunk slices", p, n, inside, slices.len()));
                    rep.violate("C01", "C01/collections/dropping-containers-released-memory-of-a-live-raw-block", format!("block [{:#x}, +{}) lies in {} of {} chunk slices", p, n, inside, slices.len()));
                    break;
                }
            }
            rep.add("c10.raw_blocks_located_after_container_drops", raw_blocks.len() as u64);
        }
        // end of program: what is still alive on each side must agree (intentional leaks only)
        let la: Vec<u32> = {
            let mut v: Vec<u32> = ledger::live_ids_of_side(1).iter().map(|i| ledger::key_of(*i)).collect();
            v.sort();
            v
        };
        let ls: Vec<u32> = {
            let mut v: Vec<u32> = ledger::live_ids_of_side(2).iter().map(|i| ledger::key_of(*i)).collect();
            v.sort();
            v
        };
        if la != ls {
            rep.violate("C15", "C15/end-of-program/undropped-set-differs-from-std", format!("bumpalo side still live keys {:?}; std side {:?}", &la[..la.len().min(20)], &ls[..ls.len().min(20)]));
        }
        rep.add("c15.tracked_values_minted", ledger::minted() as u64);
        let mark = ledger::log_len();
        drop(bump);
        if ledger::log_len() != mark {
            rep.violate("C15", "C15/arena-drop-ran-destructors", String::new());
        }
        let d = ledger::doubles();
        if !d.is_empty() {
            rep.violate("C15", "C15/end-of-program/double-drop", format!("{:?}", d));
        }
        halloc::set_always(false);
        rep.evaluations += 1;
        rep.distinct.insert(sig);
        if it == 0 {
            let mut j = J::obj();
            j.set("program_seed", J::i(pseed));
            j.set("shape", J::s("5 bumpalo Vecs (u8,u64,[u8;24],(),Tracked) + String + Boxes + raw canaries in one arena, each Vec mirrored by a std Vec; ops drawn from 41 kinds with in-range, boundary and out-of-range indices and all range forms"));
            rep.sample(j);
        }
        if rep.violations.len() >= rep.max_violations {
            break;
        }
    }
    zst_drop_counts(args, rep);
    overaligned_elements(args, rep);
}

#[derive(Clone, Copy, PartialEq, Debug)]
#[repr(align(64))]
struct A64(u8);
#[derive(Clone, Copy, PartialEq, Debug)]
#[repr(align(32))]
struct A32([u8; 40]);

/// vectors of over-aligned elements: the buffer is aligned for the element after every growth step,
/// whichever way the growth went (in place, moved inside the chunk, moved to a new chunk)
fn overaligned_elements(args: &Args, rep: &mut Report) {
    let mut rng = Rng::new(args.seed ^ 0xA64);
    halloc::Env::from_seed(args.seed ^ 0x64, args.instrumented).apply(args.seed);
    for case in 0..(if cfg!(miri) { 2 } else { 40 }) {
        let b = match rng.below(3) {
            0 => Bump::new(),
            1 => Bump::with_capacity(rng.range(1, 500) as usize),
            _ => {
                let b = Bump::new();
                b.alloc_slice_fill_copy(rng.range(1, 700) as usize, 3u8);
                b
            }
        };
        rep.ctx = format!("vecdiff over-aligned elements case {}", case);
        let mut v64: BVec<A64> = BVec::new_in(&b);
        let mut v32: BVec<A32> = BVec::with_capacity_in(rng.below(3), &b);
        let n = if cfg!(miri) { 20 } else { rng.range(10, 400) as usize };
        for i in 0..n {
            match rng.below(4) {
                0 => {
                    b.alloc_slice_fill_copy(rng.range(1, 9) as usize, 1u8);
                }
                1 => v64.reserve(rng.below(5)),
                2 => {
                    let _ = v32.try_reserve(rng.below(5));
                }
                _ => {}
            }
            v64.push(A64(i as u8));
            v32.push(A32([i as u8; 40]));
            if rng.chance(1, 16) {
                v64.shrink_to_fit();
                v32.shrink_to_fit();
            }
            for (p, al, what) in [(v64.as_ptr() as usize, 64usize, "align(64)"), (v32.as_ptr() as usize, 32, "align(32)")] {
                if p % al != 0 {
                    rep.violate("C04", format!("C04/collections/vec<{}>/buffer-misaligned-for-its-element-type", what), format!("{:#x} after {} pushes", p, i + 1));
                    rep.violate("C13", format!("C13/vec<{}>/push/buffer-misaligned-for-its-element-type", what), format!("{:#x} after {} pushes", p, i + 1));
                    return;
                }
            }
            rep.bump("c04.collection_buffers_checked");
        }
        if v64.iter().enumerate().any(|(i, x)| x.0 != i as u8) || v32.iter().enumerate().any(|(i, x)| x.0 != [i as u8; 40]) {
            rep.violate("C13", "C13/vec<over-aligned>/push/contents-differ", String::new());
        }
        rep.evaluations += 1;
    }
}

/// zero-sized elements with destructors: counted, not identified
fn zst_drop_counts(args: &Args, rep: &mut Report) {
    let mut rng = Rng::new(args.seed ^ 0x257);
    for _ in 0..(if cfg!(miri) { 6 } else { 200 }) {
        ledger::zst_reset();
        ledger::reset();
        let b = Bump::new();
        let n = rng.range(0, 20);
        let mut v: BVec<TrackedZst> = BVec::new_in(&b);
        for _ in 0..n {
            v.push(TrackedZst::new());
        }
        let how = rng.below(13);
        rep.ctx = format!("zst vec n={} how={}", n, how);
        let mut expect_leak = 0u64;
        match how {
            0 => drop(v),
            1 => {
                let mut it = v.into_iter();
                let _ = it.next();
                let _ = it.next_back();
                drop(it);
            }
            2 => {
                for x in v {
                    drop(x);
                }
            }
            3 => {
                v.truncate(n / 2);
                v.clear();
            }
            4 => {
                let d = v.drain(..);
                drop(d);
            }
            5 => {
                expect_leak = n as u64;
                let _ = v.into_bump_slice();
            }
            6 => {
                let bx = v.into_boxed_slice();
                drop(bx);
            }
            7 => {
                let mut it = v.into_iter();
                let _ = it.nth(rng.below(4));
                let _ = it.nth(rng.below(4));
                drop(it);
            }
            8 => {
                let k = rng.below(5);
                for x in v.into_iter().skip(k) {
                    drop(x);
                }
            }
            9 => {
                let k = rng.range(1, 4) as usize;
                let kept: Vec<TrackedZst> = v.into_iter().step_by(k).collect();
                drop(kept);
            }
            10 => {
                let mut it = v.into_iter();
                let _ = it.nth_back(rng.below(4));
                let _ = it.next();
                drop(it);
            }
            11 => {
                let k = rng.below(6);
                let taken: Vec<TrackedZst> = v.into_iter().rev().skip(1).take(k).collect();
                drop(taken);
            }
            _ => {
                let it = v.into_iter();
                let _ = if rng.chance(1, 2) { it.last().is_some() } else { it.count() > 0 };
            }
        }
        let (minted, dropped) = ledger::zst_counts();
        if minted - dropped != expect_leak {
            rep.violate("C15", format!("C15/zst-vec/{}/drop-count-wrong", ["drop", "into_iter-partial", "into_iter-for", "truncate+clear", "drain", "into_bump_slice", "into_boxed_slice", "into_iter-nth", "into_iter-skip", "into_iter-step_by", "into_iter-nth_back", "into_iter-rev-skip-take", "into_iter-last-or-count"][how]), format!("minted {} dropped {} expected leak {}", minted, dropped, expect_leak));
        }
        rep.bump("c15.zst_cases");
        rep.evaluations += 1;
    }
}
