//! Trait surface of the arena collections on concrete element types, against std (C13 Vec, C14 String,
//! C17 Box): the impls that the generic differential executors cannot reach because they need
//! `Hash` / `Ord` / `Debug` / `Copy` elements or a second operand type.  Found with a coverage run of
//! the quick tier: these functions were never executed by any other workload.
use crate::halloc::{self, Env};
use crate::report::{fnv, Report};
use crate::rng::Rng;
use crate::Args;
use bumpalo::boxed::Box as BBox;
use bumpalo::collections::{String as BString, Vec as BVec};
use bumpalo::Bump;
use std::borrow::{Borrow, BorrowMut};
use std::collections::hash_map::DefaultHasher;
use std::hash::{Hash, Hasher};

fn h<T: Hash + ?Sized>(x: &T) -> u64 {
    let mut s = DefaultHasher::new();
    x.hash(&mut s);
    s.finish()
}

fn gen_u64s(rng: &mut Rng, max: usize) -> Vec<u64> {
    let n = rng.below(max + 1);
    (0..n).map(|_| rng.below(4) as u64).collect()
}

fn gen_f64s(rng: &mut Rng, max: usize) -> Vec<f64> {
    let n = rng.below(max + 1);
    (0..n).map(|_| [0.0, 1.5, -2.0, f64::NAN, f64::INFINITY][rng.below(5)]).collect()
}

fn cmp_eq<T: PartialEq + std::fmt::Debug>(rep: &mut Report, prop: &'static str, what: &str, got: T, want: T) {
    rep.bump("traits.comparisons");
    if got != want {
        rep.violate(prop, format!("{}/trait-surface/{}/differs-from-std", prop, what), format!("bumpalo {:?}, std {:?}", got, want));
    }
}

fn vec_surface(rng: &mut Rng, rep: &mut Report) {
    let b = Bump::new();
    let xs = gen_u64s(rng, 6);
    let ys = if rng.chance(1, 3) { xs.clone() } else { gen_u64s(rng, 6) };
    let bx: BVec<u64> = BVec::from_iter_in(xs.iter().copied(), &b);
    let by: BVec<u64> = BVec::from_iter_in(ys.iter().copied(), &b);
    rep.distinct.insert(fnv(h(&xs), h(&ys)));
    // Hash: same as the slice, hence as std's Vec
    cmp_eq(rep, "C13", "vec/hash", h(&bx), h(&xs));
    // Ord / PartialOrd and the four operators
    cmp_eq(rep, "C13", "vec/cmp", bx.cmp(&by), xs.cmp(&ys));
    cmp_eq(rep, "C13", "vec/partial_cmp", bx.partial_cmp(&by), xs.partial_cmp(&ys));
    cmp_eq(rep, "C13", "vec/lt-le-gt-ge", (bx < by, bx <= by, bx > by, bx >= by), (xs < ys, xs <= ys, xs > ys, xs >= ys));
    cmp_eq(rep, "C13", "vec/max-min", (std::cmp::max(&bx, &by).as_slice().to_vec(), std::cmp::min(&bx, &by).as_slice().to_vec()), (std::cmp::max(&xs, &ys).clone(), std::cmp::min(&xs, &ys).clone()));
    // floats: partial order with NaN
    let fx = gen_f64s(rng, 4);
    let fy = if rng.chance(1, 3) { fx.clone() } else { gen_f64s(rng, 4) };
    let bfx: BVec<f64> = BVec::from_iter_in(fx.iter().copied(), &b);
    let bfy: BVec<f64> = BVec::from_iter_in(fy.iter().copied(), &b);
    cmp_eq(rep, "C13", "vec<f64>/partial_cmp", bfx.partial_cmp(&bfy), fx.partial_cmp(&fy));
    cmp_eq(rep, "C13", "vec<f64>/eq-ne-self", (bfx == bfx, bfx != bfx, bfx == bfy, bfx != bfy), (fx == fx, fx != fx, fx == fy, fx != fy));
    cmp_eq(rep, "C13", "vec<f64>/lt-le-gt-ge", (bfx < bfy, bfx <= bfy, bfx > bfy, bfx >= bfy), (fx < fy, fx <= fy, fx > fy, fx >= fy));
    // Debug with flags
    cmp_eq(rep, "C13", "vec/debug", format!("{:?}|{:#?}|{:x?}|{:5?}|{:#06X?}", bx, bx, bx, bx, bx), format!("{:?}|{:#?}|{:x?}|{:5?}|{:#06X?}", xs, xs, xs, xs, xs));
    cmp_eq(rep, "C13", "vec<f64>/debug", format!("{:?}|{:8.2?}|{:+e}", bfx, bfx, 0.0), format!("{:?}|{:8.2?}|{:+e}", fx, fx, 0.0));
    // equality with the other operand types
    let mut ym = ys.clone();
    cmp_eq(rep, "C13", "vec/eq-slice-forms", (bx == &ys[..], bx != &ys[..], bx == &mut ym[..], bx == by, bx != by), (xs == &ys[..], xs != &ys[..], xs == &mut ym.clone()[..], xs == ys, xs != ys));
    let arr3 = [rng.below(4) as u64, rng.below(4) as u64, rng.below(4) as u64];
    let mut arr3m = arr3;
    let arr0: [u64; 0] = [];
    cmp_eq(rep, "C13", "vec/eq-array-forms", (bx == arr3, bx != arr3, bx == &arr3, bx == &mut arr3m, bx == arr0, bx == &arr0), (xs == arr3, xs != arr3, xs == &arr3, xs[..] == arr3m[..], xs == arr0, xs == &arr0));
    if xs.len() == 3 {
        let same = [xs[0], xs[1], xs[2]];
        cmp_eq(rep, "C13", "vec/eq-array-equal", (bx == same, bx == &same), (true, true));
    }
    // a different element type on the right (A: PartialEq<B>)
    {
        let sx: Vec<String> = xs.iter().map(|k| format!("s{}", k)).collect();
        let sy: Vec<&str> = ys.iter().map(|k| ["s0", "s1", "s2", "s3"][*k as usize]).collect();
        let bsx: BVec<String> = BVec::from_iter_in(sx.iter().cloned(), &b);
        let bsy: BVec<&str> = BVec::from_iter_in(sy.iter().copied(), &b);
        cmp_eq(rep, "C13", "vec/eq-heterogeneous", (bsx == bsy, bsx != bsy, bsx == &sy[..]), (sx == sy, sx != sy, sx == &sy[..]));
    }
    // Extend<&T> for Copy elements
    {
        let mut e1 = bx.clone();
        let mut s1 = xs.clone();
        e1.extend(ys.iter());
        s1.extend(ys.iter());
        e1.extend(&by);
        s1.extend(&ys);
        cmp_eq(rep, "C13", "vec/extend-by-reference", e1.as_slice().to_vec(), s1);
    }
    // AsRef / AsMut / Borrow / BorrowMut, all four
    {
        let mut m = bx.clone();
        let mut sm = xs.clone();
        {
            let r: &mut BVec<u64> = m.as_mut();
            r.push(9);
            let r: &mut Vec<u64> = sm.as_mut();
            r.push(9);
        }
        {
            let r: &mut [u64] = m.borrow_mut();
            r.reverse();
            let r: &mut [u64] = sm.borrow_mut();
            r.reverse();
        }
        {
            let r: &mut [u64] = m.as_mut();
            if let Some(x) = r.first_mut() {
                *x += 100;
            }
            let r: &mut [u64] = sm.as_mut();
            if let Some(x) = r.first_mut() {
                *x += 100;
            }
        }
        let r1: &[u64] = m.borrow();
        let r2: &[u64] = m.as_ref();
        let r3: &BVec<u64> = m.as_ref();
        cmp_eq(rep, "C13", "vec/as_mut-borrow_mut", (r1.to_vec(), r2.to_vec(), r3.len()), (sm.clone(), sm.clone(), sm.len()));
    }
    // IntoIter: Debug, as_slice, as_mut_slice, count; Drain: Debug; Splice: next_back; DrainFilter: size_hint
    {
        let mut it = bx.clone().into_iter();
        let mut st = xs.clone().into_iter();
        let _ = (it.next(), st.next());
        let _ = (it.next_back(), st.next_back());
        cmp_eq(rep, "C13", "into_iter/debug", format!("{:?}|{:#?}", it, it), format!("{:?}|{:#?}", st, st));
        for x in it.as_mut_slice() {
            *x *= 3;
        }
        for x in st.as_mut_slice() {
            *x *= 3;
        }
        cmp_eq(rep, "C13", "into_iter/as_mut_slice", it.as_slice().to_vec(), st.as_slice().to_vec());
        cmp_eq(rep, "C13", "into_iter/size_hint", it.size_hint(), st.size_hint());
        cmp_eq(rep, "C13", "into_iter/count", it.count(), st.count());
    }
    {
        let mut d1 = bx.clone();
        let mut d2 = xs.clone();
        let lo = rng.below(xs.len() + 1);
        let hi = lo + rng.below(xs.len() - lo + 1);
        {
            let mut a = d1.drain(lo..hi);
            let mut c = d2.drain(lo..hi);
            let _ = (a.next(), c.next());
            cmp_eq(rep, "C13", "drain/debug", format!("{:?}|{:#?}", a, a), format!("{:?}|{:#?}", c, c));
            cmp_eq(rep, "C13", "drain/size_hint", a.size_hint(), c.size_hint());
        }
        cmp_eq(rep, "C13", "drain/after", d1.as_slice().to_vec(), d2.clone());
        let rep_items = gen_u64s(rng, 4);
        let lo = rng.below(d2.len() + 1);
        let hi = lo + rng.below(d2.len() - lo + 1);
        let r1: Vec<u64> = {
            let mut s = d1.splice(lo..hi, rep_items.iter().copied());
            let mut out = Vec::new();
            while let Some(x) = s.next_back() {
                out.push(x);
                if let Some(y) = s.next() {
                    out.push(y);
                }
            }
            out
        };
        let r2: Vec<u64> = {
            let mut s = d2.splice(lo..hi, rep_items.iter().copied());
            let mut out = Vec::new();
            while let Some(x) = s.next_back() {
                out.push(x);
                if let Some(y) = s.next() {
                    out.push(y);
                }
            }
            out
        };
        cmp_eq(rep, "C13", "splice/next_back", (r1, d1.as_slice().to_vec()), (r2, d2.clone()));
        let n0 = d1.len();
        let mut df = d1.drain_filter(|x| *x % 2 == 0);
        let h0 = df.size_hint();
        let first = df.next();
        let h1 = df.size_hint();
        drop(df);
        rep.bump("traits.comparisons");
        if h0 != (0, Some(n0)) || h1.0 != 0 || h1.1.map_or(true, |u| u > n0) || (first.is_some() && h1.1 == Some(n0) && n0 > 0 && false) {
            rep.violate("C13", "C13/trait-surface/drain_filter/size_hint-out-of-range", format!("{:?} then {:?} for a vector of {}", h0, h1, n0));
        }
        let want: Vec<u64> = d2.iter().copied().filter(|x| *x % 2 != 0).collect();
        cmp_eq(rep, "C13", "drain_filter/after", d1.as_slice().to_vec(), want);
    }
}

const TEXTS: [&str; 8] = ["", "a", "ab", "héllo", "€uro", "日本", "x\u{80}y", "tab\t\"q\"\n"];

fn string_surface(rng: &mut Rng, rep: &mut Report) {
    let b = Bump::new();
    let x = TEXTS[rng.below(TEXTS.len())];
    let y = if rng.chance(1, 3) { x } else { TEXTS[rng.below(TEXTS.len())] };
    rep.distinct.insert(fnv(h(x), h(y) ^ 0x5151));
    let bx = BString::from_str_in(x, &b);
    let by = BString::from_str_in(y, &b);
    let (sx, sy) = (x.to_string(), y.to_string());
    cmp_eq(rep, "C14", "string/hash", h(&bx), h(&sx));
    cmp_eq(rep, "C14", "string/eq-forms", (bx == by, bx != by, bx == *y, bx == y, *y == bx, y == bx, bx == sy, sy == bx), (sx == sy, sx != sy, sx == *y, sx == y, *y == sx, y == sx, sx == sy, sy == sx));
    cmp_eq(rep, "C14", "string/cmp", (bx.cmp(&by), bx.partial_cmp(&by), bx < by, bx >= by), (sx.cmp(&sy), sx.partial_cmp(&sy), sx < sy, sx >= sy));
    cmp_eq(rep, "C14", "string/display-debug", format!("{}|{:?}|{:>8}|{:<8}|{:^9}|{:.2}|{:#?}|{:*^12.3}", bx, bx, bx, bx, bx, bx, bx, bx), format!("{}|{:?}|{:>8}|{:<8}|{:^9}|{:.2}|{:#?}|{:*^12.3}", sx, sx, sx, sx, sx, sx, sx, sx));
    {
        let r1: &str = bx.as_ref();
        let r2: &[u8] = bx.as_ref();
        let r3: &str = bx.borrow();
        cmp_eq(rep, "C14", "string/as_ref-borrow", (r1, r2, r3), (sx.as_str(), sx.as_bytes(), sx.as_str()));
    }
    {
        let mut m = bx.clone();
        let mut sm = sx.clone();
        {
            let r: &mut str = m.borrow_mut();
            r.make_ascii_uppercase();
            let r: &mut str = sm.borrow_mut();
            r.make_ascii_uppercase();
        }
        {
            let r: &mut str = m.as_mut_str();
            r.make_ascii_lowercase();
            let r: &mut str = sm.as_mut_str();
            r.make_ascii_lowercase();
        }
        cmp_eq(rep, "C14", "string/borrow_mut-as_mut_str", m.as_str(), sm.as_str());
        // clone_from
        let mut c = by.clone();
        let mut sc = sy.clone();
        c.clone_from(&m);
        sc.clone_from(&sm);
        cmp_eq(rep, "C14", "string/clone_from", (c.as_str(), c.len()), (sc.as_str(), sc.len()));
        if std::str::from_utf8(c.as_bytes()).is_err() {
            rep.violate("C14", "C14/trait-surface/string/clone_from/invalid-utf8", String::new());
        }
    }
    // from_raw_parts_in: ownership of a buffer of this arena moves into a String
    {
        let v: BVec<u8> = BVec::from_iter_in(x.bytes(), &b);
        let mut v = std::mem::ManuallyDrop::new(v);
        let s = unsafe { BString::from_raw_parts_in(v.as_mut_ptr(), v.len(), v.capacity(), &b) };
        cmp_eq(rep, "C14", "string/from_raw_parts_in", (s.as_str(), s.capacity() >= s.len()), (x, true));
        let mut s = s;
        s.push_str(y);
        cmp_eq(rep, "C14", "string/from_raw_parts_in-then-push_str", s.as_str().to_string(), format!("{}{}", x, y));
    }
    // error types: Display / Debug / accessors agree with std's
    {
        let mut bytes = x.as_bytes().to_vec();
        bytes.insert(rng.below(bytes.len() + 1), [0xFFu8, 0xC0, 0xED, 0x80][rng.below(4)]);
        if rng.chance(1, 2) {
            bytes.push(0xE2);
        }
        let bv: BVec<u8> = BVec::from_iter_in(bytes.iter().copied(), &b);
        match (BString::from_utf8(bv), String::from_utf8(bytes.clone())) {
            (Err(e1), Err(e2)) => {
                cmp_eq(rep, "C14", "from_utf8_error/display", format!("{}", e1), format!("{}", e2));
                cmp_eq(rep, "C14", "from_utf8_error/utf8_error", (e1.utf8_error().valid_up_to(), e1.utf8_error().error_len()), (e2.utf8_error().valid_up_to(), e2.utf8_error().error_len()));
                cmp_eq(rep, "C14", "from_utf8_error/as_bytes", e1.as_bytes().to_vec(), e2.as_bytes().to_vec());
                let back = e1.into_bytes();
                cmp_eq(rep, "C14", "from_utf8_error/into_bytes", back.as_slice().to_vec(), e2.into_bytes());
            }
            (Ok(s1), Ok(s2)) => cmp_eq(rep, "C14", "from_utf8/ok", s1.as_str().to_string(), s2),
            (a, c) => rep.violate("C14", "C14/trait-surface/from_utf8/accepts-differently-from-std", format!("bumpalo ok={} std ok={} for {:?}", a.is_ok(), c.is_ok(), bytes)),
        }
        let units: Vec<u16> = vec![0x61, [0xD800u16, 0xDC00, 0xDFFF, 0x0080][rng.below(4)], 0x62];
        match (BString::from_utf16_in(&units, &b), String::from_utf16(&units)) {
            (Err(e1), Err(e2)) => cmp_eq(rep, "C14", "from_utf16_error/display", format!("{}|{:?}", e1, e1), format!("{}|{:?}", e2, e2)),
            (Ok(s1), Ok(s2)) => cmp_eq(rep, "C14", "from_utf16/ok", s1.as_str().to_string(), s2),
            (a, c) => rep.violate("C14", "C14/trait-surface/from_utf16_in/accepts-differently-from-std", format!("bumpalo ok={} std ok={} for {:x?}", a.is_ok(), c.is_ok(), units)),
        }
    }
    // Drain: Debug, size_hint, double-ended
    {
        let mut m = bx.clone();
        let mut sm = sx.clone();
        let cuts: Vec<usize> = (0..=x.len()).filter(|i| x.is_char_boundary(*i)).collect();
        let lo = cuts[rng.below(cuts.len())];
        let hi = cuts[rng.below(cuts.len())].max(lo);
        {
            let mut d1 = m.drain(lo..hi);
            let mut d2 = sm.drain(lo..hi);
            cmp_eq(rep, "C14", "string-drain/size_hint", d1.size_hint(), d2.size_hint());
            cmp_eq(rep, "C14", "string-drain/next-next_back", (d1.next(), d1.next_back(), d1.size_hint()), (d2.next(), d2.next_back(), d2.size_hint()));
            let dbg = format!("{:?}|{:>14?}", d1, d1);
            rep.bump("traits.comparisons");
            if !dbg.starts_with("Drain") {
                rep.violate("C14", "C14/trait-surface/string-drain/debug-not-a-drain", dbg);
            }
        }
        cmp_eq(rep, "C14", "string-drain/after", m.as_str(), sm.as_str());
    }
}

#[derive(Default)]
struct RecHasher(Vec<(u8, u128)>);
impl Hasher for RecHasher {
    fn finish(&self) -> u64 {
        self.0.len() as u64
    }
    fn write(&mut self, bytes: &[u8]) {
        for b in bytes {
            self.0.push((0, *b as u128));
        }
    }
    fn write_u8(&mut self, i: u8) {
        self.0.push((1, i as u128))
    }
    fn write_u16(&mut self, i: u16) {
        self.0.push((2, i as u128))
    }
    fn write_u32(&mut self, i: u32) {
        self.0.push((3, i as u128))
    }
    fn write_u64(&mut self, i: u64) {
        self.0.push((4, i as u128))
    }
    fn write_u128(&mut self, i: u128) {
        self.0.push((5, i))
    }
    fn write_usize(&mut self, i: usize) {
        self.0.push((6, i as u128))
    }
    fn write_i8(&mut self, i: i8) {
        self.0.push((7, i as u8 as u128))
    }
    fn write_i16(&mut self, i: i16) {
        self.0.push((8, i as u16 as u128))
    }
    fn write_i32(&mut self, i: i32) {
        self.0.push((9, i as u32 as u128))
    }
    fn write_i64(&mut self, i: i64) {
        self.0.push((10, i as u64 as u128))
    }
    fn write_i128(&mut self, i: i128) {
        self.0.push((11, i as u128))
    }
    fn write_isize(&mut self, i: isize) {
        self.0.push((12, i as usize as u128))
    }
}

fn drive<H: Hasher>(hs: &mut H, k: u64) {
    hs.write_u8(k as u8);
    hs.write_u16(k as u16 ^ 0x1234);
    hs.write_u32(k as u32 ^ 0x5555_0000);
    hs.write_u64(k ^ 0xABCD);
    hs.write_u128((k as u128) << 70 | 5);
    hs.write_usize(k as usize + 1);
    hs.write_i8(-(k as i8 & 0x3f));
    hs.write_i16(-(k as i16 & 0x3fff) - 1);
    hs.write_i32(-(k as i32 & 0x3fff_ffff) - 2);
    hs.write_i64(-((k >> 2) as i64) - 3);
    hs.write_i128(-((k as i128) << 64) - 4);
    hs.write_isize(-((k >> 3) as isize) - 5);
    hs.write(&k.to_le_bytes()[..(k % 9) as usize % 8]);
}

fn box_surface(rng: &mut Rng, rep: &mut Report) {
    let b = Bump::new();
    let k = rng.next();
    rep.distinct.insert(fnv(k, 0xB0));
    // Hasher for Box<H>: every method forwards to the same method of the boxed hasher
    {
        let mut bh = BBox::new_in(RecHasher::default(), &b);
        let mut sh: Box<RecHasher> = Box::new(RecHasher::default());
        drive(&mut bh, k);
        drive(&mut sh, k);
        let f1 = bh.finish();
        let f2 = sh.finish();
        cmp_eq(rep, "C17", "box/hasher-forwarding", (bh.0.clone(), f1), (sh.0.clone(), f2));
    }
    // all six comparison methods, floats included
    {
        let v = [0.0, 1.5, -2.0, f64::NAN];
        let (x, y) = (v[rng.below(4)], v[rng.below(4)]);
        let (bx, by) = (BBox::new_in(x, &b), BBox::new_in(y, &b));
        let (sx, sy) = (Box::new(x), Box::new(y));
        cmp_eq(rep, "C17", "box/six-comparisons", (bx == by, bx != by, bx < by, bx <= by, bx > by, bx >= by, bx.partial_cmp(&by)), (sx == sy, sx != sy, sx < sy, sx <= sy, sx > sy, sx >= sy, sx.partial_cmp(&sy)));
        let (ix, iy) = ((k % 5) as i32, ((k >> 8) % 5) as i32);
        let (bi, bj) = (BBox::new_in(ix, &b), BBox::new_in(iy, &b));
        cmp_eq(rep, "C17", "box/ord", (bi.cmp(&bj), bi < bj, bi <= bj, bi > bj, bi >= bj, **std::cmp::max(&bi, &bj), **std::cmp::min(&bi, &bj)), (ix.cmp(&iy), ix < iy, ix <= iy, ix > iy, ix >= iy, std::cmp::max(ix, iy), std::cmp::min(ix, iy)));
    }
    // Borrow / BorrowMut / AsRef / AsMut
    {
        let mut bx = BBox::new_in([k, k ^ 1, k ^ 2], &b);
        let mut sx = Box::new([k, k ^ 1, k ^ 2]);
        {
            let r: &mut [u64; 3] = bx.borrow_mut();
            r[0] = r[0].wrapping_add(7);
            let r: &mut [u64; 3] = sx.borrow_mut();
            r[0] = r[0].wrapping_add(7);
        }
        {
            let r: &mut [u64; 3] = bx.as_mut();
            r[1] = !r[1];
            let r: &mut [u64; 3] = sx.as_mut();
            r[1] = !r[1];
        }
        let r1: &[u64; 3] = bx.borrow();
        let r2: &[u64; 3] = bx.as_ref();
        cmp_eq(rep, "C17", "box/borrow-as_ref", (*r1, *r2), (*sx, *sx));
    }
}

pub fn run(args: &Args, rep: &mut Report) {
    let mut top = Rng::new(Rng::mix(args.seed ^ 0x7A17, args.shard));
    Env::PLAIN.apply(1);
    halloc::set_always(false);
    for it in 0..args.iters {
        let pseed = top.next();
        let mut rng = Rng::new(pseed);
        rep.ctx = format!("traitsurf case {} (seed {} shard {})", it, args.seed, args.shard);
        let r = std::panic::catch_unwind(std::panic::AssertUnwindSafe(|| {
            vec_surface(&mut rng, rep);
            string_surface(&mut rng, rep);
            box_surface(&mut rng, rep);
        }));
        if r.is_err() {
            let msg = crate::arena::last_panic();
            rep.violate("C13", format!("C13/trait-surface/unexpected-panic/{}", crate::arena::normalise_msg(&msg)), msg.clone());
            rep.violate("C14", format!("C14/trait-surface/unexpected-panic/{}", crate::arena::normalise_msg(&msg)), msg.clone());
            rep.violate("C17", format!("C17/trait-surface/unexpected-panic/{}", crate::arena::normalise_msg(&msg)), msg);
        }
        rep.evaluations += 1;
        if rep.violations.len() >= rep.max_violations {
            break;
        }
    }
}
