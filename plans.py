"""Shard plans per property and tier.  A shard = one process of the harness (engine + argv)."""

MAS = [1, 2, 4, 8, 16]


def sh(engine, workload, seed, shard, timeout=300, miriflags=None, **kw):
    args = [workload, "--seed", str(seed), "--shard", str(shard)]
    for k, v in kw.items():
        args += ["--" + k, str(v)]
    d = dict(engine=engine, args=args, timeout=timeout)
    if miriflags:
        d["miriflags"] = miriflags
    return d


def arena_shards(seed, tier, profiles, iters_q, iters_t, ops=200, miri_q=1, miri_t=32, asan_t=16, workload="arena", extra=None):
    """native debug+release for every MIN_ALIGN, plus Miri (and ASan in thorough)"""
    extra = extra or {}
    out = []
    n = 0
    reps = 1 if tier == "quick" else 16
    iters = iters_q if tier == "quick" else iters_t
    for rep in range(reps):
        for prof in profiles:
            for ma in MAS:
                for eng in ("debug", "release"):
                    out.append(sh(eng, workload, seed, n, ma=ma, iters=iters, ops=ops, profile=prof, **extra))
                    n += 1
    nm = miri_q if tier == "quick" else miri_t
    for i in range(nm):
        ma = MAS[(seed + i) % 5]
        prof = profiles[i % len(profiles)]
        out.append(sh("miri", workload, seed, 1000 + i, timeout=900, ma=ma, iters=(1 if tier == "quick" else 3), ops=(30 if tier == "quick" else 80), profile=prof, **extra))
    if tier == "thorough":
        for i in range(asan_t):
            ma = MAS[i % 5]
            prof = profiles[i % len(profiles)]
            out.append(sh("asan", workload, seed, 2000 + i, timeout=900, ma=ma, iters=iters // 4 + 1, ops=ops, profile=prof, instrumented=1, **extra))
    return out


ASSUME_COMMON = [
    "the harness-owned #[global_allocator] sees every request bumpalo makes (bumpalo only calls alloc::alloc / alloc::dealloc)",
    "a block belongs to the arena iff a footer address yielded by iter_allocated_chunks_raw lies inside it (claim rule); chunk requests have align>=16, size>=48, size%16==0",
    "observation happens between public calls only (the arena is !Sync, so these are quiescent points)",
    "verdict is about the executions produced; paths the workloads never drive are not covered",
]

RULE_ARENA = ("one evaluation = one random steered history (about 200 public-API calls on one Bump<M>, all monitors run after every call); "
              "distinct = distinct (op-kind sequence, max chunk count) hashes; histories are non-trivial by construction (every one reaches >= 1 chunk and mixes >= 5 op kinds)")


def plan(prop, tier, seed):
    f = globals().get("plan_" + prop)
    if f is None:
        return None
    return f(tier, seed)


def tool_report_relevant(prop, tr):
    """Sanitizer / Miri reports: memory-safety flavoured properties own them."""
    if tr["tool"] == "tsan":
        return prop == "C20"
    if tr["tool"] == "miri" and "Data_race" in tr["kind"]:
        return prop == "C20"
    if "leak" in tr["kind"].lower():
        return prop in ("C03",)
    return True


def plan_C01(tier, seed):
    return dict(level="exploration", rule=RULE_ARENA + "; C01 oracle: interval map of live blocks vs ledger-held chunks; collections layer: the buffers (whole capacity) of live vectors, strings, boxes, boxed and leaked slices of one arena are pairwise disjoint",
                shards=arena_shards(seed, tier, ["general", "alignment", "allocator"], 60, 600)
                + [sh(e, "vecdiff", seed, 720 + i, iters=(200 if tier == "quick" else 3000), ops=150, tracked=i % 2) for i, e in enumerate(("debug", "release"))]
                + [sh(e, "c19", seed, 725 + i, ma=ma) for i, (e, ma) in enumerate([("release", 8), ("release", 16), ("debug", 4)])],
                require={"c01.blocks_checked": 5000, "c01.zst_checked": 200, "c01.collection_blocks_checked_for_overlap": 20000}, assumptions=ASSUME_COMMON)


def plan_C02(tier, seed):
    return dict(level="exploration", rule=RULE_ARENA + "; C02 oracle: expected-bytes shadow of every live block compared after every call, closure call logs",
                shards=arena_shards(seed, tier, ["contents", "allocator"], 80, 800)
                + [sh(e, "vecdiff", seed, 700 + i, iters=(300 if tier == "quick" else 3000), ops=150) for i, e in enumerate(("debug", "release"))]
                + [sh(e, "strdiff", seed, 710 + i, iters=(300 if tier == "quick" else 3000), ops=120) for i, e in enumerate(("debug", "release"))]
                + [sh("release", "strdiff", seed, 715, decoders=1, exh=(2 if tier == "quick" else 3), random=(2000 if tier == "quick" else 50000))],
                require={"shadow.blocks_verified": 100000, "c02.closure_logs_checked": 200, "vop.into_bump_slice": 100, "sop.into_bump_str": 20}, assumptions=ASSUME_COMMON)


def plan_C03(tier, seed):
    return dict(level="exploration", rule=RULE_ARENA + "; C03 oracle: global-allocator ledger (exactly-once, same layout, only inside reset/drop, nothing left after drop), refusal schedules on",
                shards=arena_shards(seed, tier, ["chunks", "general"], 80, 800) + [sh("debug", "ctor_table", seed, 0), sh("release", "ctor_table", seed, 1)],
                require={"ledger.acquired": 2000, "ledger.released": 2000, "env.refusals_injected": 20, "c03.constructor_calls_checked_for_leaks": 100}, assumptions=ASSUME_COMMON)


def plan_C04(tier, seed):
    return dict(level="exploration", rule=RULE_ARENA + "; C04 oracle: address arithmetic on every returned pointer under a minimally-aligning allocator, constructor panic table; collections layer: every vector buffer aligned for its element type after every op (u64, boxed payloads, align(32) and align(64) elements)",
                shards=arena_shards(seed, tier, ["alignment", "general"], 80, 800) + [sh("debug", "ctor_table", seed, 0), sh("release", "ctor_table", seed, 1)]
                + [sh(e, "vecdiff", seed, 750 + i, iters=(200 if tier == "quick" else 3000), ops=150, tracked=i % 2) for i, e in enumerate(("debug", "release"))],
                require={"c04.pointers_checked": 10000, "c04.chunkless_requests": 50, "c04.collection_buffers_checked": 20000}, assumptions=ASSUME_COMMON)


def plan_C06(tier, seed):
    return dict(level="exploration", rule=RULE_ARENA + "; C06 oracle: post-reset structural assertions + refill-whole-chunk-without-global-call probe",
                shards=arena_shards(seed, tier, ["chunks"], 100, 1000),
                require={"c06.reset_with_memory": 500, "c06.refill_probes": 200, "c06.reset_memoryless": 5}, assumptions=ASSUME_COMMON)


def plan_C07(tier, seed):
    return dict(level="exploration", rule=RULE_ARENA + "; C07 oracle: conservation check (sum of usable bytes of ledger blocks <= limit) on every chunk acquisition while a limit is set; fitting requests must succeed; twin run without the feature",
                shards=arena_shards(seed, tier, ["limits"], 100, 3000, miri_q=0, miri_t=2, asan_t=0)
                + [sh(e, "limit_twin", seed, i, ma=ma, iters=(40 if tier == "quick" else 2500)) for i, (e, ma) in enumerate([(e, ma) for e in ("debug", "release") for ma in MAS])]
                + [sh(e, "c09", seed, 760 + i, ma=1, iters=1, ops=20, max_k=3) for i, e in enumerate(("debug", "release"))],
                require={"c07.acquire_under_limit": 300}, assumptions=ASSUME_COMMON)


def plan_C08(tier, seed):
    return dict(level="exploration", rule=RULE_ARENA + "; C08 oracle: self-reported bytes == ledger bytes after every call",
                shards=arena_shards(seed, tier, ["chunks", "limits"], 80, 2500, miri_q=0, miri_t=2, asan_t=0),
                require={"c08.checks": 50000}, assumptions=ASSUME_COMMON)


def plan_C10(tier, seed):
    return dict(level="exploration", rule=RULE_ARENA + "; C10 oracle: chunk iterators vs ledger order/extent, live blocks contained in exactly one slice; uniform histories: slices tiled exactly by the allocated objects; boxed slices made from vectors (released with into_raw) located in exactly one chunk slice before and after later allocations",
                shards=arena_shards(seed, tier, ["general"], 60, 600, miri_q=0, miri_t=4) + arena_shards(seed, tier, ["uniform"], 120, 1200, workload="uniform", miri_q=1, miri_t=8, asan_t=2)
                + [sh(e, "boxdiff", seed, 730 + i, iters=(300 if tier == "quick" else 5000), ops=60) for i, e in enumerate(("debug", "release"))]
                + [sh(e, "vecdiff", seed, 735 + i, iters=(200 if tier == "quick" else 3000), ops=150, tracked=i % 2) for i, e in enumerate(("debug", "release"))],
                require={"c10.uniform_tilings_checked": 10000, "c10.iter_compared": 200, "c10.live_boxed_slices_located": 1000}, assumptions=ASSUME_COMMON)


def plan_C09(tier, seed):
    q = tier == "quick"
    shards = []
    n = 0
    for rep in range(1 if q else 16):
        for ma in MAS:
            for eng in ("debug", "release"):
                shards.append(sh(eng, "c09", seed, n, timeout=900, ma=ma, iters=(12 if q else 40), ops=(70 if q else 110), max_k=(40 if q else 200)))
                n += 1
    # the size-boundary grid (fallible entry points must answer with Err, never a panic)
    for i, eng in enumerate(("debug", "release")):
        shards.append(sh(eng, "c19", seed, 790 + i, ma=1))
    for i in range(1 if q else 16):
        shards.append(sh("miri", "c09", seed, 1000 + i, timeout=1500, ma=MAS[(seed + i) % 5], iters=1, ops=(9 if q else 25), max_k=(2 if q else 8)))
    return dict(level="fault_enumeration",
                rule=("one evaluation = one (history, refusal schedule) pair, run twice (try_ methods / infallible twins); for every generated history the fault-free run counts its n chunk requests, "
                      "then Kth(k) for every k<=min(n,max_k), FromKth, Above(size) and Above(size-16) for every chunk size seen, All and Prob are enumerated; "
                      "distinct_nontrivial counts distinct (history, schedule) pairs in which at least one refusal was actually injected"),
                shards=shards, require={"c09.schedules_that_fired": 300, "c09.twin_ops_compared": 20000, "c09.failure_state_checks": 2000},
                assumptions=ASSUME_COMMON + ["'never fails to terminate' is checked as bounded progress: at most 200 refused chunk requests inside one call (the halving retry loop legitimately needs <= 64); a wall-clock watchdog firing is inconclusive"])


def plan_C11(tier, seed):
    q = tier == "quick"
    shards = []
    n = 0
    for ma in MAS:
        for eng in ("debug", "release"):
            shards.append(sh(eng, "c11", seed, n, ma=ma))
            n += 1
    # random histories with the try_with-heavy profile as well
    shards += arena_shards(seed, tier, ["trywith"], 60, 600, miri_q=0, miri_t=4, asan_t=2)
    for i in range(1 if q else 32):
        shards.append(sh("miri", "c11", seed, i, timeout=1800, ma=MAS[(seed + i) % 5], stride=(2500 if q else 200)))
    return dict(level="exploration",
                rule=("one evaluation = one steered case (arena parked so that exactly L bytes are left, then one failing fallible initialiser + reuse probe + follow-up ops) or one random history of the trywith profile; "
                      "distinct = distinct (type, entry point, initialiser behaviour, bytes left, allocator refusing or not, outcome, MIN_ALIGN) tuples"),
                shards=shards, require={"c11.rewind_new_chunk": 5000, "c11.rewind_same_chunk": 5000, "c11.reuse_probes": 20000, "c11.errors_delivered": 20000},
                assumptions=ASSUME_COMMON)


def plan_C12(tier, seed):
    q = tier == "quick"
    shards = arena_shards(seed, tier, ["allocator"], 80, 800, miri_q=1, miri_t=10, asan_t=5)
    n = 500
    for rep in range(1 if q else 16):
        for ma in MAS:
            for eng in ("debug", "release"):
                shards.append(sh(eng, "c12diff", seed, n, ma=ma, iters=(40 if q else 300), ops=300))
                n += 1
    for i in range(1 if q else 16):
        shards.append(sh("miri", "c12diff", seed, 3000 + i, timeout=1500, ma=MAS[(seed + i) % 5], iters=1, ops=(40 if q else 90)))
    if not q:
        for i in range(5):
            shards.append(sh("asan", "c12diff", seed, 4000 + i, timeout=900, ma=MAS[i], iters=60, ops=300, instrumented=1))
    return dict(level="exploration",
                rule=("one evaluation = one random history of Allocator calls on several live blocks mixed with native arena ops (allocator profile), or one differential program "
                      "(5 allocator_api2 Vecs + Boxes in one Bump<M> mirrored by std Vecs, 300 ops, native arena ops in between); distinct = distinct op-sequence hashes"),
                shards=shards, require={"c12.diff_checks": 50000, "c12.deallocate": 2000, "c12.grow.moved": 1000, "c12.shrink.same_ptr": 1000, "c12.grow_zeroed.moved": 500},
                assumptions=ASSUME_COMMON + ["std::vec::Vec on the global allocator is the reference for 'behaves exactly as with the global allocator'"])


def plan_C18(tier, seed):
    q = tier == "quick"
    shards = []
    n = 0
    for rep in range(1 if q else 6):
      for ma in MAS:
        for eng in ("debug", "release"):
            shards.append(sh(eng, "c18", seed + 1000 * rep, n, timeout=1800, ma=ma, iters=(10 if q else 1500), ops=150, quick=(1 if q else 0), vec_cases=(120 if q else 12000)))
            n += 1
    # limits placed exactly at what an acquisition needs: the permitted chunk is the one taken
    for i, (eng, ma) in enumerate([(e, ma) for e in ("debug", "release") for ma in MAS]):
        shards.append(sh(eng, "limit_edge", seed, 770 + i, ma=ma, iters=(25 if q else 1500), ops=150))
    # the Vec differential carries a C18-tagged monitor (reserve inside the capacity neither moves nor regrows)
    for i, eng in enumerate(("debug", "release")):
        shards.append(sh(eng, "vecdiff", seed, 740 + i, iters=(200 if q else 4000), ops=150))
    for i in range(1 if q else 5):
        shards.append(sh("miri", "c18", seed, 100 + i, timeout=1500, ma=MAS[(seed + i) % 5] if i else 1, iters=0, ops=0, stride=3))
    return dict(level="exploration",
                rule=("one evaluation = one capacity case (constructor with capacity c, then requests of multiples of MIN_ALIGN totalling c under 5 strategies, watched by the allocator ledger), one random history with chunk_capacity probes, "
                      "one growth case (volume x size distribution x initial capacity) or one Vec/String capacity/growth case; distinct = distinct parameter tuples"),
                shards=shards, require={"c18.capacity_cases": 5000, "c18.capacity_probes": 1000, "c18.growth_cases": 100, "c18.vec_capacity_cases": 500, "c18.vec_growth_cases": 50, "c18.limit_edge_acquisitions_compared": 5000, "c18.every_way_growth_cases": 100, "c18.capped_growth_cases": 50},
                assumptions=ASSUME_COMMON + ["the asymptotic clauses are restated as explicit bounds: chunks <= 3+log2(occupied/64)+#requests larger than the current chunk; Vec moves <= 3+log2(n); held <= 6*max(occupied,capacity)+4*max_align+16KiB (arena), 24*occupied+16KiB (Vec with neighbours); new chunk never smaller than its predecessor in fault-free, limit-free, reset-free runs"])


def plan_C19(tier, seed):
    q = tier == "quick"
    shards = []
    n = 0
    for ma in MAS:
        for eng in ("debug", "release"):
            shards.append(sh(eng, "c19", seed, n, timeout=900, ma=ma))
            n += 1
    # collections under faults: a capacity claimed after a reserve that met a refusal or a limit is really reserved
    for i, eng in enumerate(("debug", "release")):
        shards.append(sh(eng, "c09", seed, 780 + i, ma=1, iters=1, ops=20, max_k=3))
    # random histories that mix huge requests with ordinary ones (faults profile has them at weight 6)
    for ma in MAS:
        for eng in ("debug", "release"):
            shards.append(sh(eng, "arena", seed, 100 + n, ma=ma, iters=(40 if q else 20000), ops=150, profile="faults"))
            n += 1
    # Vec programs containing splices whose replacement honestly announces an unreservable count
    for i, eng in enumerate(("debug", "release")):
        shards.append(sh(eng, "vecdiff", seed, 300 + i, iters=(300 if q else 4000), ops=150))
        shards.append(sh(eng, "vecdiff", seed, 310 + i, iters=(200 if q else 3000), ops=150, tracked=1))
    return dict(level="exploration", exhaustive=True,
                rule=("one evaluation = one (entry point, element size, boundary count, arena/vector state, flavour) cell of a finite grid enumerated completely in debug and release for every MIN_ALIGN, "
                      "plus random histories mixing huge requests with ordinary ones; distinct = distinct grid cells"),
                shards=shards, require={"c19.grid_err": 1000, "c19.grid_panic": 1000, "c19.vec_err": 2000, "c19.vec_panic": 2000, "c19.huge_err": 2000, "c19.refused_splice_reservations_checked": 100},
                assumptions=ASSUME_COMMON + ["the global allocator refuses chunk requests above 64 MiB, so an Ok for a request whose true size exceeds that cannot be backed by memory"])


def plan_C20(tier, seed):
    q = tier == "quick"
    shards = []
    n = 0
    for rep in range(1 if q else 16):
        for ma in MAS:
            for eng in ("debug", "release"):
                shards.append(sh(eng, "c20", seed, n, timeout=900, ma=ma, iters=(12 if q else 60), ops=(120 if q else 200), threads=(3 + n % 4)))
                n += 1
    # collections layer: operations that involve containers of two arenas
    for i, eng in enumerate(("debug", "release")):
        shards.append(sh(eng, "c20cross", seed, 600 + i, iters=(3000 if q else 60000)))
    shards.append(sh("miri", "c20cross", seed, 610, timeout=1800, iters=(45 if q else 300)))
    # ThreadSanitizer: detector-oriented rounds + the trace workload
    for i in range(3 if q else 64):
        shards.append(sh("tsan", "c20race", seed, 200 + i, timeout=900, iters=(300 if q else 1500), threads=2 + i % 7))
    for i in range(2 if q else 30):
        shards.append(sh("tsan", "c20", seed, 300 + i, timeout=900, ma=MAS[i % 5], iters=(3 if q else 12), ops=100, threads=2 + i % 5, instrumented=1))
    # Miri: data-race detector with many schedules
    for i in range(1 if q else 24):
        shards.append(sh("miri", "c20race", seed + i, 400 + i, timeout=1800, iters=(3 if q else 5), threads=3,
                         miriflags="-Zmiri-many-seeds=%d..%d -Zmiri-preemption-rate=0.05" % (i * 8, i * 8 + (6 if q else 8))))
    for i in range(1 if q else 16):
        shards.append(sh("miri", "c20", seed, 500 + i, timeout=1800, ma=MAS[(seed + i) % 5], iters=1, ops=(14 if q else 30), threads=2, single=(0 if q else 1),
                         miriflags="-Zmiri-preemption-rate=0.05"))
    return dict(level="exploration", required_engines=["debug", "release", "tsan"],
                rule=("one evaluation = one comparison of an arena's per-call trace against its solo run: interleaved with other arenas on one thread, with one arena per thread (barriers between calls), "
                      "or handed over between threads mid-history; plus cross-arena collection operations (append / extend / splice / push_str between containers of two arenas: each container stays in, and is paid for by, its own arena) and a collections-level solo-vs-interleaved twin (format!, vec!, collect_in, decoders, growth: same lengths, capacities and arena statistics with or without another arena working in between); plus detector rounds under ThreadSanitizer and Miri; distinct = distinct global interleaving signatures (hash of the observed order of (thread, call) tickets)"),
                shards=shards, require={"c20.trace_entries_compared": 50000, "c20.thread_switches_observed": 2000, "c20.race_rounds": 1000, "c20.hand_over_runs": 20, "c20.cross_arena_growth_watched": 4000, "c20.collection_twin_steps_compared": 5000},
                assumptions=ASSUME_COMMON + ["twin runs use a deterministic-placement allocator mode (chunk base = align mod 8192) so that placement relative to the chunk base depends only on the arena's own history",
                                             "race detectors only see the schedules that occurred; TSan runs are repeated with 2-8 threads, Miri with several scheduler seeds"])


def coll_shards(seed, tier, workload, iters_q, iters_t, ops, extra=None, miri_q=1, miri_t=24, asan_t=8, miri_ops=40, miriflags="-Zmiri-ignore-leaks"):
    extra = extra or {}
    q = tier == "quick"
    out = []
    n = 0
    for rep in range(2 if q else 48):
        for eng in ("debug", "release"):
            out.append(sh(eng, workload, seed, n, timeout=900, iters=(iters_q if q else iters_t), ops=ops, **extra))
            n += 1
    for i in range(miri_q if q else miri_t):
        out.append(sh("miri", workload, seed, 1000 + i, timeout=1500, iters=(1 if q else 3), ops=miri_ops, miriflags=miriflags, **extra))
    if not q:
        for i in range(asan_t):
            out.append(sh("asan", workload, seed, 2000 + i, timeout=900, iters=iters_t // 4, ops=ops, instrumented=1, **extra))
    return out


def trait_shards(seed, tier):
    """trait surface on concrete element types (Hash/Ord/Debug/eq forms/Borrow/iterator structs/error types), vs std"""
    q = tier == "quick"
    out = [sh(e, "traitsurf", seed, 800 + i, iters=(3000 if q else 100000)) for i, e in enumerate(("debug", "release"))]
    out.append(sh("miri", "traitsurf", seed, 810, timeout=1500, iters=(12 if q else 150)))
    return out


ASSUME_COLL = [
    "std::vec::Vec / std::string::String / std::boxed::Box of the installed toolchain (rustc 1.95) are the reference model",
    "requests that std would answer by aborting (real allocation failure) are not generated; lying size_hints are not used; panic messages, drop order and exact capacities are not compared",
    "verdict is about the programs generated; op kinds and index classes actually executed are counted in the evidence",
]


def plan_C13(tier, seed):
    return dict(level="exploration",
                rule=("one evaluation = one random program (150 ops) over 5 bumpalo Vecs (u8,u64,[u8;24],(),Tracked) sharing one arena with a String, Boxes and raw canaries, each Vec mirrored by a std Vec and compared after every op "
                      "(outcome class, returned values, contents, length, capacity promises), plus trait-surface cases on concrete element types (Hash, Ord, Debug with flags, every PartialEq operand form, Extend<&T>, Borrow/AsMut, IntoIter/Drain/Splice/DrainFilter auxiliary methods) against std; distinct = distinct op-sequence hashes"),
                shards=coll_shards(seed, tier, "vecdiff", 400, 10000, 150) + trait_shards(seed, tier),
                require={"traits.comparisons": 100000, "c13.ops": 50000, "c13.ops_panicking_on_both_sides": 3000, "c13.neighbour_checks": 5000, "vop.drain": 1000, "vop.splice": 1000, "vop.drain_filter": 500, "vop.into_iter": 500},
                assumptions=ASSUME_COLL)


def plan_C15(tier, seed):
    return dict(level="exploration",
                rule=("one evaluation = one random program (150 ops) over bumpalo Vecs of drop-tracked elements (unique ids), mirrored by std Vecs: after every op the multiset of element keys dropped by bumpalo must equal std's, "
                      "no id is dropped twice, every reachable element is live, leak-by-design conversions and arena drop run no destructor, and the still-live sets agree at the end; plus zero-sized-element drop counts and Box ownership transfers; distinct = distinct op-sequence hashes"),
                shards=coll_shards(seed, tier, "vecdiff", 400, 6000, 150, extra={"tracked": 1}) + coll_shards(seed, tier, "boxdiff", 300, 6000, 60, miri_q=1, miri_t=4, asan_t=2),
                require={"c15.ops_drop_sets_compared": 30000, "c15.drops_observed": 30000, "c15.zst_cases": 60, "c15.box_drop_checks": 2000},
                assumptions=ASSUME_COLL)


def plan_C16(tier, seed):
    q = tier == "quick"
    shards = []
    n = 0
    for rep in range(1 if q else 16):
        for eng in ("debug", "release"):
            shards.append(sh(eng, "c16", seed + rep, n, timeout=1800, iters=(3 if q else 60)))
            n += 1
    for i in range(2 if q else 32):
        shards.append(sh("miri", "c16", seed, i, timeout=1800, iters=1, stride=(40 if q else 32), miriflags="-Zmiri-ignore-leaks"))
    if not q:
        for i in range(3):
            shards.append(sh("asan", "c16", seed + i, 50 + i, timeout=900, iters=6, instrumented=1))
    return dict(level="fault_enumeration",
                rule=("one evaluation = one (operation scenario, input, panic point k, follow-up) tuple: for each of 38 callback-taking scenarios and each input the fault-free run counts the n callback invocations, "
                      "then every k in 1..=n is run with the k-th invocation panicking, under three follow-ups (continue using, drop, consume); distinct = distinct such tuples"),
                shards=shards, require={"c16.panics_injected": 5000, "c16.callback_points_enumerated": 1500, "sc.string-retain": 7, "sc.drain_filter-consume-all": 6, "sc.splice-exact-hint": 6, "c16.kept_blocks_checked": 100},
                assumptions=ASSUME_COLL + ["the fuse fires once per run, so a second panic during unwinding (abort) can only be raised by the code under test; a shard dying with SIGABRT is reported as a violation"])


def plan_C14(tier, seed):
    q = tier == "quick"
    shards = coll_shards(seed, tier, "strdiff", 600, 4000, 120, miri_q=1, miri_t=8, asan_t=3, miri_ops=50, miriflags="")
    # decoders: exhaustive up to 3 bytes in quick (1.8 s), up to 4 bytes in thorough (16 parts)
    if q:
        shards.append(sh("release", "strdiff", seed, 900, decoders=1, exh=3))
        shards.append(sh("debug", "strdiff", seed, 901, decoders=1, exh=2))
    else:
        for part in range(16):
            shards.append(sh("release", "strdiff", seed, 900 + part, timeout=3000, decoders=1, exh=4, part=part, parts=16, random=20000))
        shards.append(sh("debug", "strdiff", seed, 950, timeout=900, decoders=1, exh=3))
    shards.append(sh("miri", "strdiff", seed, 960, timeout=1500, decoders=1, exh=1, random=(20 if q else 100), parts=64, part=seed % 64))
    shards += trait_shards(seed, tier)
    return dict(level="exploration",
                rule=("one evaluation = one random String program (120 ops over 1-4 byte characters with every byte index 0..=len+2 and all range forms, mirrored by std::string::String, UTF-8 validity checked after every op including panicking ones) "
                      "or one decoder input (from_utf8 / from_utf8_lossy_in / from_utf16_in compared with std): all byte strings up to length 3 (quick) or 4 (thorough) exhaustively, structured lead/continuation/truncation grid, random corrupted text, UTF-16 boundary classes; distinct = distinct op-sequence hashes"),
                shards=shards, require={"traits.comparisons": 100000, "c14.ops": 50000, "c14.ops_panicking_on_both_sides": 10000, "c14.decoder_exhaustive_inputs": 16000000, "c14.decoder_structured_inputs": 200000, "sop.replace_range": 3000, "sop.drain": 3000, "sop.insert": 3000},
                assumptions=ASSUME_COLL)


def plan_C17(tier, seed):
    return dict(level="exploration",
                rule=("one evaluation = one random program of 60 Box scenarios (16 kinds: comparison/hash/fmt against std::boxed::Box, drop ledger around drop/into_inner/into_raw/from_raw/leak/pin_in/downcast hit+miss, "
                      "array<->slice<->Vec conversions, boxed iterators/futures/hashers, arena accounting and allocator events around every drop); distinct = distinct scenario-sequence hashes"),
                shards=coll_shards(seed, tier, "boxdiff", 400, 20000, 60, miri_q=1, miri_t=6, asan_t=3, miri_ops=30, miriflags="") + trait_shards(seed, tier),
                require={"traits.comparisons": 100000, "c17.monitored_drops": 10000, "c15.box_drop_checks": 10000},
                assumptions=ASSUME_COLL)
