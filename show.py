import json,sys
d=json.loads(sys.stdin.readlines()[-1])
pre=sys.argv[1] if len(sys.argv)>1 else ''
print(pre,d.get('ma'),d['evaluations'],d['distinct'],d['wall_ms'],'viol',len(d['violations']),d['inconclusive'][:2])
if len(sys.argv)>2:
    print({k:v for k,v in d['counters'].items() if k.startswith(sys.argv[2])})
seen=set()
for v in d['violations']:
    if v['sig'] in seen: continue
    seen.add(v['sig']); print('  ',v['sig'],'|',v['detail'][:260],'|',v['at'][:80])
    if len(seen)>=12: break
